/-
Model of `edzed.FSM` (edzed/fsm.py): `_build_tables` and `_ctx_event`.

* `buildTables` mirrors `FSM._build_tables`: STATES / EVENTS / TIMERS -> control tables
  (`_ct_states`, `_ct_events`, `_ct_transition`, `_ct_timed_event`, `_ct_chainlimit`);
  the `'a | b'` notation of from-states is split by the harness, everything else
  (None from-state, None target, duplicates, unknown states, undefined timed events) is here.
* `ctxEvent` mirrors `FSM._ctx_event` including its re-entrant use: an entry action (or a
  timer of zero duration) calls `self.event()` while `_fsm_event_active` is set, which is the
  function `nested`; `ctxEvent` of an active FSM *is* `nested` (theorem `ctxEvent_active`).
* User code is represented by scripts: a condition returns a constant or an item of the event
  data, an entry action sends a list of events to the FSM itself, an exit action only logs.
  Every callback may exist as an instance function and/or a class method; `_run_cb` calls the
  function first, then the method, and `all()` sees both results.
* Timers are log entries only (`startTimer`, `stopTimer`); a timed state of zero duration
  delivers its timed event immediately (`_start_timer`), durations proper belong to C04.
* Every logged callback records the event data it can read through `fsm_event_data`.
  The model mirrors the code WITH the repair `patches/C03-chained-event-data.diff`: the context
  variable is set when the chained event is unpacked, before the intermediate exit action.
-/
import EdzedModel.Basic.Val

namespace Edzed.Fsm

abbrev State := String
abbrev EvName := String

inductive EType where
  | ev (e : EvName)
  | goto (s : State)
  deriving DecidableEq, Repr, Inhabited

/-- instance callback (`cond_E=function` keyword argument) or class method (`def cond_E(self)`) -/
inductive Who where
  | func | meth
  deriving DecidableEq, Repr, Inhabited

/-- script of a condition: what it returns (its truthiness decides) -/
inductive CondS where
  | const (v : Val)
  | item (key : String)          -- `fsm_event_data.get().get(key)`
  deriving DecidableEq, Repr, Inhabited

/-- one `self.event(etype, **data)` call of an entry action -/
structure Send where
  etype : EType
  data : Data
  deriving DecidableEq, Repr, Inhabited

/-! ### control tables -/

/-- one entry of `EVENTS`: `froms = none` is the any-state rule, `to = none` forbids -/
structure RawRule where
  ev : EvName
  froms : Option (List State)
  to : Option State
  deriving DecidableEq, Repr, Inhabited

/-- the class attributes; a timer is (state, timed event, duration is zero) -/
structure Spec where
  states : List State
  rules : List RawRule
  timers : List (State × EType × Bool)
  deriving Repr, Inhabited

abbrev TransTable := List (EvName × Option State × Option State)

structure Tables where
  states : List State                         -- `_ct_states`
  events : List EvName                        -- `_ct_events`
  trans : TransTable                          -- `_ct_transition` as (event, from, target)
  timed : List (State × EType × Bool)         -- `_ct_timed_event` (+ zero duration flag)
  chainLimit : Nat                            -- `_ct_chainlimit`
  deriving Repr, Inhabited

inductive BuildErr where
  | noStates | unknownState | duplicate | undefinedTimedEvent
  deriving DecidableEq, Repr, Inhabited

/-- dict lookup `_ct_transition[(e, k)]`: `none` = KeyError, `some none` = a stored `None` -/
def tget (tr : TransTable) (e : EvName) (k : Option State) : Option (Option State) :=
  (tr.find? (fun r => r.1 == e && r.2.1 == k)).map (·.2.2)

def insertNew (l : List String) (s : String) : List String :=
  if l.contains s then l else l ++ [s]

/-- `set(STATES).union(TIMERS)` in first-occurrence order -/
def ctStates (sp : Spec) : List State :=
  (sp.states ++ sp.timers.map (·.1)).foldl insertNew []

/-- `add_transition` -/
def addTransition (states : List State) (tr : TransTable) (e : EvName) (fr : Option State)
    (to : Option State) : Except BuildErr TransTable :=
  match fr with
  | some s =>
    if !states.contains s then .error .unknownState
    else if (tget tr e fr).isSome then .error .duplicate
    else .ok (tr ++ [(e, fr, to)])
  | none =>
    if (tget tr e fr).isSome then .error .duplicate else .ok (tr ++ [(e, fr, to)])

def addFroms (states : List State) (e : EvName) (to : Option State) :
    TransTable → List State → Except BuildErr TransTable
  | tr, [] => .ok tr
  | tr, s :: rest =>
    match addTransition states tr e (some s) to with
    | .error x => .error x
    | .ok tr' => addFroms states e to tr' rest

/-- `if next_state is not None: cls._check_state(next_state)` -/
def targetOk (states : List State) : Option State → Bool
  | some t => states.contains t
  | none => true

def addRule (states : List State) (acc : List EvName × TransTable) (r : RawRule) :
    Except BuildErr (List EvName × TransTable) :=
  if targetOk states r.to then
    match r.froms with
    | none =>
      match addTransition states acc.2 r.ev none r.to with
      | .error x => .error x
      | .ok tr => .ok (insertNew acc.1 r.ev, tr)
    | some l =>
      match addFroms states r.ev r.to acc.2 l with
      | .error x => .error x
      | .ok tr => .ok (insertNew acc.1 r.ev, tr)
  else .error .unknownState

def addRules (states : List State) :
    List EvName × TransTable → List RawRule → Except BuildErr (List EvName × TransTable)
  | acc, [] => .ok acc
  | acc, r :: rest =>
    match addRule states acc r with
    | .error x => .error x
    | .ok acc' => addRules states acc' rest

def timerOk (states : List State) (events : List EvName) (t : State × EType × Bool) : Bool :=
  match t.2.1 with
  | .goto s => states.contains s
  | .ev e => events.contains e

/-- `FSM._build_tables` -/
def buildTables (sp : Spec) : Except BuildErr Tables :=
  let states := ctStates sp
  if states.isEmpty then .error .noStates else
  match addRules states ([], []) sp.rules with
  | .error x => .error x
  | .ok (evs, tr) =>
    match sp.timers.find? (fun t => !timerOk states evs t) with
    | some t =>
      match t.2.1 with
      | .goto _ => .error .unknownState
      | .ev _ => .error .undefinedTimedEvent
    | none =>
      .ok { states := states, events := evs, trans := tr, timed := sp.timers,
            chainLimit := 3 * states.length }

/-- the table lookup of `_ctx_event`: the rule naming the current state, else the any-state
    rule; a stored `None` does NOT fall through to the any-state rule -/
def lookup (t : Tables) (e : EvName) (s : State) : Option State :=
  match tget t.trans e (some s) with
  | some tgt => tgt
  | none =>
    match tget t.trans e none with
    | some tgt => tgt
    | none => none

/-! ### scripts of the user code -/

structure Scripts where
  condF : List (EvName × CondS) := []           -- `cond_EVENT=` instance functions
  condM : List (EvName × CondS) := []           -- `cond_EVENT` methods
  enterF : List (State × List Send) := []
  enterM : List (State × List Send) := []
  exitF : List State := []
  exitM : List State := []
  outmap : List (State × Val) := []             -- `calc_output`; default: the state name;
                                                -- UNDEF = leave the output unchanged
  deriving Repr, Inhabited

structure Def extends Tables, Scripts
  deriving Repr, Inhabited

/-- callbacks of an event in the order `_run_cb` calls them: function, then method -/
def condsOf (d : Def) (e : EvName) : List (Who × CondS) :=
  ((d.condF.lookup e).map fun c => (Who.func, c)).toList ++
  ((d.condM.lookup e).map fun c => (Who.meth, c)).toList

def entersOf (d : Def) (s : State) : List (Who × List Send) :=
  ((d.enterF.lookup s).map fun c => (Who.func, c)).toList ++
  ((d.enterM.lookup s).map fun c => (Who.meth, c)).toList

def exitsOf (d : Def) (s : State) : List Who :=
  (if d.exitF.contains s then [Who.func] else []) ++
  (if d.exitM.contains s then [Who.meth] else [])

def CondS.eval (c : CondS) (data : Data) : Val :=
  match c with
  | .const v => v
  | .item k => (data.get? k).getD Val.none      -- `dict.get(k)` yields None when missing

def calcOutput (d : Def) (s : State) : Val :=
  match d.outmap.lookup s with
  | some v => v
  | none => Val.str s

/-! ### state, log, results -/

/-- `_next_event`: (event, data, newstate) -/
structure Req where
  etype : EType
  data : Data
  target : State
  deriving DecidableEq, Repr, Inhabited

structure Fsm where
  state : Option State := none       -- `_state`, `none` = UNDEF
  output : Val := .undef             -- `_output`
  active : Bool := false             -- `_fsm_event_active`
  next : Option Req := none          -- `_next_event`
  deriving DecidableEq, Repr, Inhabited

inductive Action where
  | cond (w : Who) (e : EvName) (seen : Data)
  | notrans (e : EvName) (s : State)              -- on_notrans event
  | exit (w : Who) (s : State) (seen : Data)
  | onExit (s : State) (value : Val)              -- on_exit_STATE event: state, output
  | stopTimer
  | setState (s : State)                          -- `self._state = newstate`
  | enter (w : Who) (s : State) (seen : Data)
  | send (e : EType) (data : Data)                -- entry action calls `self.event(e, **data)`
  | sendRet (ret : Bool)                          -- … and gets this return value
  | startTimer (s : State)
  | output (previous value : Val)                 -- on_output event
  | onEnter (s : State) (value : Val)             -- on_enter_STATE event
  deriving DecidableEq, Repr, Inhabited

inductive Res where
  | accepted            -- `event()` returns True
  | rejected            -- `event()` returns False
  | unknownEvent        -- EdzedUnknownEvent
  | errMultiple         -- EdzedCircuitError: forbidden event multiplication
  | errChain            -- EdzedCircuitError: chained state transition limit reached
  | errBadState         -- ValueError of `_check_state` (Goto to an unknown state)
  | errAssert           -- AssertionError (non-Goto event on an FSM without a state; stale `_next_event`)
  deriving DecidableEq, Repr, Inhabited

def Res.isError : Res → Bool
  | .accepted | .rejected => false
  | _ => true

def exitLog (d : Def) (s : State) (seen : Data) : List Action :=
  (exitsOf d s).map fun w => Action.exit w s seen

def condLog (d : Def) (e : EvName) (seen : Data) : List Action :=
  (condsOf d e).map fun c => Action.cond c.1 e seen

/-- first half of `_ctx_event`: validity, table lookup, conditions.  Conditions are consulted
    only for table events on an initialised FSM; all of them are called. -/
def check (d : Def) (f : Fsm) (e : EType) (data : Data) : List Action × Except Res State :=
  match e with
  | .goto s => if d.states.contains s then ([], .ok s) else ([], .error .errBadState)
  | .ev name =>
    if !d.events.contains name then ([], .error .unknownEvent) else
    match f.state with
    | none => ([], .error .errAssert)
    | some s =>
      match lookup d.toTables name s with
      | none => ([.notrans name s], .error .rejected)
      | some tgt =>
        if f.output.isUndef then ([], .ok tgt)
        else if (condsOf d name).all (fun c => (c.2.eval data).truthy) then
          (condLog d name data, .ok tgt)
        else (condLog d name data, .error .rejected)

/-- `_ctx_event` called while `_fsm_event_active` is set (from an entry action or from a
    zero-duration timer): the transition is only scheduled in `_next_event` -/
def nested (d : Def) (f : Fsm) (e : EType) (data : Data) : Fsm × Res × List Action :=
  match check d f e data with
  | (l, .error r) => (f, r, l)
  | (l, .ok tgt) =>
    match f.next with
    | some _ => (f, .errMultiple, l)
    | none => ({ f with next := some ⟨e, data, tgt⟩ }, .accepted, l)

/-- the calls `self.event(...)` of one entry action, in order; an exception ends the action -/
def runSends (d : Def) : Fsm → List Send → Fsm × Option Res × List Action
  | f, [] => (f, none, [])
  | f, s :: rest =>
    match nested d f s.etype s.data with
    | (f1, r, l) =>
      if r.isError then (f1, some r, Action.send s.etype s.data :: l)
      else
        match runSends d f1 rest with
        | (f2, e2, l2) =>
          (f2, e2, Action.send s.etype s.data :: l ++ Action.sendRet (r == .accepted) :: l2)

/-- `_run_cb('enter', s)`: the instance function, then the method; `seen` is what they read
    through `fsm_event_data` -/
def runCbs (d : Def) (s : State) (seen : Data) :
    Fsm → List (Who × List Send) → Fsm × Option Res × List Action
  | f, [] => (f, none, [])
  | f, (w, sends) :: rest =>
    match runSends d f sends with
    | (f1, some r, l1) => (f1, some r, Action.enter w s seen :: l1)
    | (f1, none, l1) =>
      match runCbs d s seen f1 rest with
      | (f2, e2, l2) => (f2, e2, Action.enter w s seen :: l1 ++ l2)

def timedOf (d : Def) (s : State) : Option (EType × Bool) := d.timed.lookup s

/-- how one pass of the `for _ in range(self._ct_chainlimit)` loop ends -/
inductive Step where
  | fail (r : Res)      -- an exception leaves `_ctx_event`
  | again               -- `continue`: a chained transition was requested
  | done                -- `break`
  deriving DecidableEq, Repr, Inhabited

/-- `if self._next_event: … etype, data, newstate = self._next_event` -/
def unpack (f : Fsm) (cur : Req) : Req :=
  match f.next with
  | some nx => nx
  | none => cur

/-- the exit action of an intermediate state; it reads the data of the chained event
    (the repaired code sets the context variable before `_run_cb('exit', …)`) -/
def unpackLog (d : Def) (f : Fsm) : List Action :=
  match f.next, f.state with
  | some nx, some s => exitLog d s nx.data
  | _, _ => []

/-- rest of the loop body once `cur = (etype, data, newstate)` is fixed: assign the state, run
    the entry action, start the timer; `l0` is what has been logged in this pass so far -/
def enterState (d : Def) (f : Fsm) (cur : Req) (l0 : List Action) : Fsm × Step × List Action :=
  match runCbs d cur.target cur.data { f with next := none, state := some cur.target }
      (entersOf d cur.target) with
  | (f1, some r, l1) => (f1, .fail r, l0 ++ l1)
  | (f1, none, l1) =>
    match f1.next with
    | some _ => (f1, .again, l0 ++ l1)
    | none =>
      match timedOf d cur.target with
      | none => (f1, .done, l0 ++ l1)
      | some (tev, zero) =>
        if zero then
          -- `_start_timer`: zero delay, `self.event(timed_event)` without data
          match nested d f1 tev [] with
          | (f2, r, l3) =>
            if r.isError then (f2, .fail r, l0 ++ l1 ++ Action.startTimer cur.target :: l3)
            else
              match f2.next with
              | some _ => (f2, .again, l0 ++ l1 ++ Action.startTimer cur.target :: l3)
              | none => (f2, .done, l0 ++ l1 ++ Action.startTimer cur.target :: l3)
        else (f1, .done, l0 ++ l1 ++ [Action.startTimer cur.target])

/-- one pass of the loop body of `_ctx_event`; `cur` is the triple `etype, data, newstate`.
    Returns the new triple as well (it is replaced when `_next_event` is unpacked). -/
def iter (d : Def) (f : Fsm) (cur : Req) : Fsm × Req × Step × List Action :=
  match enterState d f (unpack f cur) (unpackLog d f ++ [Action.setState (unpack f cur).target]) with
  | (f1, st, l) => (f1, unpack f cur, st, l)

/-- the `for _ in range(self._ct_chainlimit)` loop of `_ctx_event`; running out of passes is
    the `else:` clause (chained state transition limit reached) -/
def loop (d : Def) : Nat → Fsm → Req → Fsm × Option Res × List Action
  | 0, f, _ => (f, some .errChain, [])
  | n + 1, f, cur =>
    match iter d f cur with
    | (f1, _, .fail r, l) => (f1, some r, l)
    | (f1, _, .done, l) => (f1, none, l)
    | (f1, cur', .again, l) =>
      match loop d n f1 cur' with
      | (f2, r2, l2) => (f2, r2, l ++ l2)

/-- `SBlock.set_output` restricted to what an FSM uses: an equal value changes nothing and
    sends no event -/
def setOutput (f : Fsm) (v : Val) : Fsm × List Action :=
  if v.isUndef then (f, [])
  else if f.output.pyEq v then (f, [])
  else ({ f with output := v }, [Action.output f.output v])

/-- exit action, on_exit events and timer stop of the state being left (initialised FSM only) -/
def leaveLog (d : Def) (f : Fsm) (data : Data) : List Action :=
  match f.state with
  | some s =>
    if f.output.isUndef then []
    else exitLog d s data ++ [Action.onExit s f.output, Action.stopTimer]
  | none => []

/-- second half of `_ctx_event` for a top-level event whose first half gave `tgt`:
    the `try:` block after the exit action — chain loop, output, on_enter events — and the
    `finally:` clause -/
def transition (d : Def) (f : Fsm) (e : EType) (data : Data) (tgt : State) : Fsm × Res × List Action :=
  match loop d d.chainLimit { f with active := true } ⟨e, data, tgt⟩ with
  | (f1, some r, l1) => ({ f1 with active := false }, r, l1)
  | (f1, none, l1) =>
    match f1.state with
    | none => ({ f1 with active := false }, .errAssert, l1)       -- unreachable (`loop_props`)
    | some s =>
      ({ (setOutput f1 (calcOutput d s)).1 with active := false }, .accepted,
        l1 ++ (setOutput f1 (calcOutput d s)).2
          ++ [Action.onEnter s (setOutput f1 (calcOutput d s)).1.output])

/-- `FSM._ctx_event` -/
def ctxEvent (d : Def) (f : Fsm) (e : EType) (data : Data) : Fsm × Res × List Action :=
  if f.active then nested d f e data else
  match check d f e data with
  | (l0, .error r) => (f, r, l0)
  | (l0, .ok tgt) =>
    match f.next with
    | some _ => (f, .errAssert, l0 ++ leaveLog d f data)     -- `assert self._next_event is None`
    | none =>
      match transition d f e data tgt with
      | (f1, r, l1) => (f1, r, l0 ++ leaveLog d f data ++ l1)

/-- a new block before its initialisation -/
def Fsm.fresh : Fsm := {}

/-- `init_from_value(initdef)` = `self.event(Goto(initdef))` without data -/
def init (d : Def) (initdef : State) : Fsm × Res × List Action :=
  ctxEvent d Fsm.fresh (.goto initdef) []

/-- a sequence of events, results and logs collected -/
def run (d : Def) : Fsm → List (EType × Data) → Fsm × List (Res × List Action)
  | f, [] => (f, [])
  | f, (e, data) :: rest =>
    match ctxEvent d f e data with
    | (f1, r, l) =>
      match run d f1 rest with
      | (f2, out) => (f2, (r, l) :: out)

end Edzed.Fsm
