/-
Model of external events (edzed/block.py: `ExtEvent.__init__`, `ExtEvent.send`, `Event.send`'s
`source` item, the block-name rules of `Block.__init__`, `Circuit._create_block`-style reserved
names) on top of the life-cycle model of EdzedModel/ErrorReg.lean (`Circuit.is_ready`).
-/
import EdzedModel.Basic.Val
import EdzedModel.ErrorReg
import EdzedModel.Gen.Constants

namespace Edzed.ExtEvent

/-- the marker of external sources, taken from the source code (default of ExtEvent's `source`) -/
def pfx : List Char := Gen.extPrefix.toList

def prefixed (s : String) : Bool := pfx.isPrefixOf s.toList

/-- `source if source.startswith("_ext_") else "_ext_" + source` -/
def mkSource (s : String) : String := if prefixed s then s else Gen.extPrefix ++ s

/-! ### the constructor -/

inductive Dest where
  | sblockObj | sblockName      -- a sequential block, by object or by (existing) name
  | cblockObj | cblockName      -- a combinational block
  | unknownName                 -- a name that no block has
  | notABlock                   -- any other object
  deriving DecidableEq, Repr, Inhabited

inductive CtorRes where
  | ok (source : String)        -- the stored default source
  | typeError | keyError
  deriving DecidableEq, Repr, Inhabited

/-- `ExtEvent(dest, etype, source)`; `etype` and `source` as Python values -/
def ctor (dest : Dest) (etype : Val) (source : Val) : CtorRes :=
  match dest with
  | .unknownName => .keyError
  | .notABlock | .cblockObj | .cblockName => .typeError
  | .sblockObj | .sblockName =>
    match etype with
    | .atom (.str e) =>
      if e == "" then .typeError
      else match source with
        | .atom (.str s) => .ok (mkSource s)
        | _ => .typeError
    | _ => .typeError

/-! ### send -/

inductive SendRes where
  | invalidState                -- refused: nothing is delivered
  | typeError                   -- a `source` item that is not a string: nothing is delivered
  | delivered (data : Data)     -- `dest.event(etype, **data)` is called; its result is returned
  deriving DecidableEq, Repr, Inhabited

/-- `ExtEvent.send(value=UNDEF, **data)` in a circuit whose readiness is `ready`;
    `value = none` stands for the omitted positional argument -/
def send (ready : Bool) (defaultSource : String) (value : Option Val) (data : Data) : SendRes :=
  if !ready then .invalidState
  else
    let data := match value with
      | some v => data.set "value" v
      | none => data
    match data.get? "source" with
    | none => .delivered (data.set "source" (.str defaultSource))
    | some (.atom (.str src)) =>
      .delivered (if prefixed src then data else data.set "source" (.str (Gen.extPrefix ++ src)))
    | some _ => .typeError

/-- the whole call in a circuit in life-cycle state `s` -/
def sendIn (s : ErrorReg.St) (defaultSource : String) (value : Option Val) (data : Data) : SendRes :=
  send s.ready defaultSource value data

/-! ### names of blocks (the `source` item of every internal event is the sender's name) -/

/-- how a block gets its name -/
inductive BlockName where
  | user (name : List Char)                 -- given by the application: `Block.__init__` checks it
  | auto (cls : List Char) (suffix : List Char)   -- `name=None`: "_" + class name + "_" + counter
  | ctrl                                    -- "_ctrl", the simulator control block
  | notOf (name : List Char)                -- "_not_" + NAME, the inverter shortcut
  | cron (utc : Bool)                       -- "_cron_utc" / "_cron_local"
  deriving DecidableEq, Repr, Inhabited

def BlockName.render : BlockName → List Char
  | .user n => n
  | .auto cls suffix => '_' :: cls ++ '_' :: suffix
  | .ctrl => ['_', 'c', 't', 'r', 'l']
  | .notOf n => ['_', 'n', 'o', 't', '_'] ++ n
  | .cron true => ['_', 'c', 'r', 'o', 'n', '_', 'u', 't', 'c']
  | .cron false => ['_', 'c', 'r', 'o', 'n', '_', 'l', 'o', 'c', 'a', 'l']

/-- what `Block.__init__` (and the resolver for `_not_NAME`) accept -/
def BlockName.accepted : BlockName → Bool
  | .user n => !n.isEmpty && n.head? != some '_'
  | .auto _ _ => true
  | .ctrl => true
  | .notOf n => !n.isEmpty && n.head? != some '_'
  | .cron _ => true

/-- `Event.send`: `data['source'] = source.name` -/
def internalSource (b : BlockName) : List Char := b.render

end Edzed.ExtEvent
