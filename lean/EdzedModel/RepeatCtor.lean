/-
Constructors and task life-cycle behind `edzed.Repeat` (property C18): hand-written model of

* `Event.typecheck`, `Event.__init__` (incl. the `repeat=` / `count=` branch that creates a Repeat block and
  redirects the event to it), `Event.dest`, `_to_tuple`  (edzed/block.py);
* `Repeat.__init__` (argument checks), `Repeat.start`, `Repeat.init_regular`  (edzed/blocklib/sblocks1.py);
* `AddonAsync.__init__` (init_timeout / stop_timeout), `AddonAsync._task_monitor`,
  `AddonMainTask.start / stop_async`  (edzed/addons.py).

The argument types (`ETy`, `Dest`, `ArgsT`) and the exception class names are those of the fixed part of the
generated file Gen/TranslatedCtor.lean; `TrTie.translated_ctor_…` / `translated_monitor_…` in EdzedProps/C18.lean
prove that the programs translated from the source compute exactly these functions.
`time_period` is the model of C19 (`TimeUnits.timePeriod`).
-/
import EdzedModel.Gen.TranslatedCtor
import EdzedModel.TimeUnits

namespace Edzed.RepeatCtor

open Edzed.Gen.TrC (ETy Dest Exc ArgsT excIsA)

/-- `Event.typecheck`: a non-empty string or an `EventType` object -/
def typecheck : ETy → Except Exc Unit
  | .str s => if s == "" then .error "ValueError" else .ok ()
  | .eventCond => .ok ()
  | .eventType => .ok ()
  | .other _ => .error "TypeError"

/-- the exception class `time_period` raises -/
def periodExc : TimeUnits.PErr → Exc
  | .value _ => "ValueError"
  | .type => "TypeError"

/-- `utils.time_period` -/
def timePeriod (v : Val) : Except Exc (Option Rat) :=
  match TimeUnits.timePeriod v with
  | .ok r => .ok r
  | .error e => .error (periodExc e)

/-- what `Repeat.__init__` stores -/
structure RepeatCfg where
  dest : Dest
  etype : ETy
  /-- seconds -/
  interval : Rat
  count : Option Int
  deriving DecidableEq, Repr

/-- `Repeat.__init__(dest=, etype=, interval=, count=)`: the checks in the order of the code -/
def repeatNew (dest : Dest) (etype : ETy) (interval : Val) (count : Option Int) : Except Exc RepeatCfg :=
  if etype.isEventCond then .error "ValueError"          -- "An EventCond event cannot be repeated."
  else
    match typecheck etype with                            -- block.Event(dest, etype)
    | .error e => .error e
    | .ok _ =>
      match timePeriod interval with
      | .error e => .error e
      | .ok none => .error "ValueError"                   -- "interval must be positive"
      | .ok (some iv) =>
        if iv ≤ 0 then .error "ValueError"
        else
          match count with
          | none => .ok ⟨dest, etype, iv, none⟩
          | some n => if n < 0 then .error "ValueError" else .ok ⟨dest, etype, iv, some n⟩

/-- what `Event.__init__` stores: where the event goes and its type -/
structure EventCfg where
  dest : Dest
  etype : ETy
  deriving DecidableEq, Repr

/-- `Event(dest, etype, repeat=, count=)`; `filtersOk`: `efilter_tuple(efilter)` does not raise -/
def eventNew (dest : Dest) (etype : ETy) (repeatArg : Option Val) (count : Option Int) (filtersOk : Bool) :
    Except Exc EventCfg :=
  let finish (d : Dest) : Except Exc EventCfg :=
    match typecheck etype with
    | .error e => .error e
    | .ok _ => if filtersOk then .ok ⟨d, etype⟩ else .error "TypeError"
  match repeatArg with
  | some r =>
    match repeatNew dest etype r count with
    | .error e => .error e
    | .ok rc => finish (.repeatOf rc.dest rc.etype rc.interval rc.count)
  | none =>
    match count with
    | some _ => .error "ValueError"                       -- "Argument 'count' is valid only with 'repeat'"
    | none => finish dest

/-- `Event.dest`: a destination still given by name is not available -/
def eventDest : Dest → Except Exc Dest
  | .name _ => .error "EdzedInvalidState"
  | d => .ok d

/-- `_to_tuple(args, validator)`: the items, validated in order; the first failure propagates -/
def validateAll {ι : Type} (validator : ι → Except Exc Unit) : List ι → Except Exc Unit
  | [] => .ok ()
  | x :: xs => match validator x with
    | .error e => .error e
    | .ok _ => validateAll validator xs

def toTuple {ι : Type} (args : ArgsT ι) (validator : ι → Except Exc Unit) : Except Exc (List ι) :=
  match args with
  | .none => .ok []
  | a => match validateAll validator a.items with
    | .error e => .error e
    | .ok _ => .ok a.items

/-! ### AddonAsync.__init__: init_timeout / stop_timeout -/

def hasKw (kwargs : List (String × Val)) (k : String) : Bool := kwargs.any (·.1 == k)
def popKw (kwargs : List (String × Val)) (k : String) : Val × List (String × Val) :=
  (((kwargs.find? (·.1 == k)).map (·.2)).getD Val.none, kwargs.filter (·.1 != k))

/-- one of the two timeouts: with the method present the argument (None when absent) goes through
    `time_period`; without it the argument is refused -/
def oneTimeout (has : Bool) (key : String) (kwargs : List (String × Val)) :
    Except Exc (Option Rat × List (String × Val)) :=
  if has then
    match timePeriod (popKw kwargs key).1 with
    | .error e => .error e
    | .ok r => .ok (r, (popKw kwargs key).2)
  else if hasKw kwargs key then .error "TypeError"
  else .ok (none, kwargs)

/-- the default replaces None (only when the method exists) -/
def withDefault (has : Bool) (default : Rat) : Option Rat → Option Rat
  | none => if has then some default else none
  | some v => some v

structure Timeouts where
  init : Option Rat
  stop : Option Rat
  /-- the keyword arguments handed on to the next `__init__` -/
  rest : List (String × Val)
  deriving Repr

def asyncInit (hasInit hasStop : Bool) (defInit defStop : Rat) (kwargs : List (String × Val)) :
    Except Exc Timeouts :=
  match oneTimeout hasInit "init_timeout" kwargs with
  | .error e => .error e
  | .ok (i, k1) =>
    match oneTimeout hasStop "stop_timeout" k1 with
    | .error e => .error e
    | .ok (s, k2) => .ok ⟨withDefault hasInit defInit i, withDefault hasStop defStop s, k2⟩

/-! ### the task monitor and the main task -/

/-- how the awaited coroutine / task ended -/
inductive CoroEnd where
  | returned
  /-- it raised `e` (`"CancelledError"` when it was cancelled) -/
  | raised (e : Exc)
  deriving DecidableEq, Repr

/-- what `_task_monitor` does: the error it reports with `circuit.abort()` (if any) and how it ends itself -/
structure MonitorOut where
  aborted : Option Exc
  result : Except Exc Unit
  deriving Repr

/-- `AddonAsync._task_monitor(coro, is_service)`: an `Exception` of the coroutine is reported and re-raised;
    a service that RETURNS is an error too (EdzedCircuitError); a cancellation (a BaseException) passes
    through unreported -/
def monitor (isService : Bool) : CoroEnd → MonitorOut
  | .returned => if isService then ⟨some "EdzedCircuitError", .error "EdzedCircuitError"⟩ else ⟨none, .ok ()⟩
  | .raised e => if excIsA e "Exception" then ⟨some e, .error e⟩ else ⟨none, .error e⟩

/-- `AddonMainTask.stop_async`; `taskEnd`: how awaiting the cancelled task ends.  Result: was the task
    cancelled, is `_mtask` cleared, was the next `stop_async` awaited, and how the call ends -/
structure StopOut where
  cancelled : Bool
  mtaskCleared : Bool
  superAwaited : Bool
  result : Except Exc Unit
  deriving Repr

def stopAsync (started : Bool) (taskEnd : CoroEnd) : StopOut :=
  if !started then ⟨false, false, false, .error "AssertionError"⟩
  else match taskEnd with
    | .returned => ⟨true, true, true, .ok ()⟩
    | .raised e =>
      if excIsA e "CancelledError" then ⟨true, true, true, .ok ()⟩
      else ⟨true, true, false, .error e⟩

end Edzed.RepeatCtor
