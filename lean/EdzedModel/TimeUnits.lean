/-
Model of `edzed/utils/timeunits.py` (duration strings) over character lists and exact rationals.

* `convert`  – `_convert`/`convert`: the two regular expressions `_RE_DURATION` (traditional,
  `re.ASCII | re.IGNORECASE`, whitespace allowed around numbers and units, the unit of the last
  group optional) and `_RE_ISO_DURATION` (`P[nY][nM][nD][T[nH][nM][nS]]`, case-sensitive, whitespace
  only in front and behind) rewritten as a deterministic parser.  Each optional regex group
  `(?:NUM\s*u)?` is `optGroup`: it either matches completely or gives back its input
  (for these two expressions the greedy/committed choice finds a match iff the backtracking
  matcher finds one: a number is always followed by its unit letter, only the very last number
  of the traditional format may go without).  Then the loop over the captured groups from the
  smallest unit: a fractional part only in the first present group, zero values skipped,
  years/months refused unless zero, at least one group.
* `timePeriod` – `time_period`.
* `timestr`, `timestrApprox` – on exact rationals; `round(x, p)` and `round(x)` are
  round-half-even on the exact value (`roundHalfEven`), `int(x / unit + 0.5)` is
  `floor (x / unit + 1/2)`.  After the rounding step the value is a whole number of
  `10^-p` ticks and `divmod`/`'%.pf'` are integer arithmetic on the ticks.

The unit sizes are the generated constants `Gen.secPerDay/secPerHour/secPerMin`.
-/
import EdzedModel.Basic.Val
import EdzedModel.Gen.Constants

namespace Edzed.TimeUnits

/-- why `_convert` raised its ValueError -/
inductive Err where
  | syntax      -- "Invalid time representation": neither regular expression matches
  | fraction    -- "only the smallest unit may have a fractional part"
  | calendar    -- "calendar years/months are not supported as duration units"
  | empty       -- "at least one element must be present"
  deriving DecidableEq, Repr, Inhabited

/-! ### lexical level -/

/-- `\s` under `re.ASCII`: space, `\t \n \v \f \r` -/
def isWs (c : Char) : Bool :=
  c == ' ' || c == '\t' || c == '\n' || c == '\x0b' || c == '\x0c' || c == '\r'

/-- `\s*` -/
def skipWs : List Char → List Char
  | [] => []
  | c :: cs => if isWs c then skipWs cs else c :: cs

/-- `\d*` (ASCII digits), greedy: (the digits, the rest) -/
def takeDigits : List Char → List Char × List Char
  | [] => ([], [])
  | c :: cs => if c.isDigit then let (a, b) := takeDigits cs; (c :: a, b) else ([], c :: cs)

/-- decimal value of a digit string -/
def digitsVal (ds : List Char) : Nat := Nat.ofDigitChars 10 ds 0

/-- a captured number: its value (what `float()` makes of the text, exactly) and whether the
    text contains a decimal point or comma -/
structure Num where
  val : Rat
  frac : Bool
  /-- the decimal mark is a comma (meaningful when `frac`) -/
  comma : Bool := false
  deriving DecidableEq, Repr, Inhabited

def isMark (c : Char) : Bool := c == '.' || c == ','

/-- `(\d+(?:[.,]\d+)?)`: the number and the rest, `none` if there is no digit in front -/
def parseNum (cs : List Char) : Option (Num × List Char) :=
  match takeDigits cs with
  | ([], _) => none
  | (ip, rest) =>
    match rest with
    | c :: r1 =>
      if isMark c then
        match takeDigits r1 with
        | ([], _) => some (⟨digitsVal ip, false, false⟩, rest)
        | (fp, r2) =>
          some (⟨digitsVal ip + (digitsVal fp : Rat) / ((10 ^ fp.length : Nat) : Rat), true, c == ','⟩, r2)
      else some (⟨digitsVal ip, false, false⟩, rest)
    | [] => some (⟨digitsVal ip, false, false⟩, [])

/-- `(?:NUM\s*u)?` (with `ws`) or `(?:NUMu)?` (without): the captured number, if the group is
    there, and the rest; otherwise nothing is consumed -/
def optGroup (ws : Bool) (isUnit : Char → Bool) (cs : List Char) : Option Num × List Char :=
  match parseNum cs with
  | none => (none, cs)
  | some (n, rest) =>
    match (if ws then skipWs rest else rest) with
    | u :: r => if isUnit u then (some n, r) else (none, cs)
    | [] => (none, cs)

/-- `(?:NUM\s*s?)?` – the last group of the traditional format, unit letter optional -/
def optGroupLast (isUnit : Char → Bool) (cs : List Char) : Option Num × List Char :=
  match parseNum cs with
  | none => (none, cs)
  | some (n, rest) =>
    match skipWs rest with
    | u :: r => if isUnit u then (some n, r) else (some n, u :: r)
    | [] => (some n, [])

/-- unit letters of the traditional format (`re.IGNORECASE` with `re.ASCII`) -/
def isD (c : Char) : Bool := c == 'd' || c == 'D'
def isH (c : Char) : Bool := c == 'h' || c == 'H'
def isM (c : Char) : Bool := c == 'm' || c == 'M'
def isS (c : Char) : Bool := c == 's' || c == 'S'

/-- the captured groups in the order of the regular expression; the four-group traditional
    match has no years and months -/
structure Groups where
  y : Option Num := none
  mo : Option Num := none
  d : Option Num
  h : Option Num
  m : Option Num
  s : Option Num
  deriving DecidableEq, Repr, Inhabited

/-- `_RE_DURATION.fullmatch` -/
def matchTrad (cs : List Char) : Option Groups :=
  let (d, r) := optGroup true isD (skipWs cs)
  let (h, r) := optGroup true isH (skipWs r)
  let (m, r) := optGroup true isM (skipWs r)
  let (s, r) := optGroupLast isS (skipWs r)
  if (skipWs r).isEmpty then some { d := d, h := h, m := m, s := s } else none

/-- the part `(?:NUMH)?(?:NUMM)?(?:NUMS)?\s*` behind the `T` -/
def isoTime (y mo d : Option Num) (r : List Char) : Option Groups :=
  let (h, r) := optGroup false (· == 'H') r
  let (m, r) := optGroup false (· == 'M') r
  let (s, r) := optGroup false (· == 'S') r
  if (skipWs r).isEmpty then some { y := y, mo := mo, d := d, h := h, m := m, s := s } else none

/-- the part behind the `P` -/
def isoAfterP (r : List Char) : Option Groups :=
  let (y, r) := optGroup false (· == 'Y') r
  let (mo, r) := optGroup false (· == 'M') r
  let (d, r) := optGroup false (· == 'D') r
  match r with
  | c :: r' =>
    if c == 'T' then isoTime y mo d r'
    else if (skipWs (c :: r')).isEmpty then some { y := y, mo := mo, d := d, h := none, m := none, s := none }
    else none
  | [] => some { y := y, mo := mo, d := d, h := none, m := none, s := none }

/-- `_RE_ISO_DURATION.fullmatch` -/
def matchIso (cs : List Char) : Option Groups :=
  match skipWs cs with
  | c :: r => if c == 'P' then isoAfterP r else none
  | [] => none

/-! ### evaluation of the groups (the `for` loop of `_convert`) -/

structure Acc where
  result : Rat
  smallest : Bool
  deriving DecidableEq, Repr

/-- one round of the loop: `scale = none` stands for years and months -/
def addGroup (acc : Acc) (g : Option Num) (scale : Option Nat) : Except Err Acc :=
  match g with
  | none => .ok acc
  | some n =>
    if n.frac && !acc.smallest then .error .fraction
    else if n.val == 0 then .ok ⟨acc.result, false⟩
    else match scale with
      | none => .error .calendar
      | some k => .ok ⟨acc.result + n.val * (k : Rat), false⟩

def evalLoop (acc : Acc) : List (Option Num × Option Nat) → Except Err Acc
  | [] => .ok acc
  | (g, sc) :: rest =>
    match addGroup acc g sc with
    | .error e => .error e
    | .ok acc' => evalLoop acc' rest

/-- the groups from the smallest unit with their scale factors -/
def Groups.scaled (g : Groups) : List (Option Num × Option Nat) :=
  [(g.s, some 1), (g.m, some Gen.secPerMin), (g.h, some Gen.secPerHour), (g.d, some Gen.secPerDay),
   (g.mo, none), (g.y, none)]

def evalGroups (g : Groups) : Except Err Rat :=
  match evalLoop ⟨0, true⟩ g.scaled with
  | .error e => .error e
  | .ok acc => if acc.smallest then .error .empty else .ok acc.result

/-- `edzed.utils.convert` -/
def convert (cs : List Char) : Except Err Rat :=
  match matchTrad cs with
  | some g => evalGroups g
  | none =>
    match matchIso cs with
    | some g => evalGroups g
    | none => .error .syntax

/-! ### time_period -/

inductive PErr where
  | value (e : Err)     -- ValueError from convert
  | type                -- TypeError: not None / int / float / str
  deriving DecidableEq, Repr, Inhabited

/-- the result of `convert` as a result of `time_period` -/
def periodOfConvert : Except Err Rat → Except PErr (Option Rat)
  | .ok q => .ok (some q)
  | .error e => .error (.value e)

/-- `time_period`: `none` stays `none`, numbers become floats with negatives replaced by 0,
    strings are converted -/
def timePeriod : Val → Except PErr (Option Rat)
  | .atom .none => .ok none
  | .atom (.num q _) => .ok (some (if q < 0 then 0 else q))
  | .atom (.str s) => periodOfConvert (convert s.toList)
  | _ => .error .type

/-! ### timestr -/

/-- Python's `round()` on the exact value: to the nearest integer, ties to the even one -/
def roundHalfEven (x : Rat) : Int :=
  let f := x.floor
  let r := x - (f : Rat)
  if r < 1 / 2 then f else if 1 / 2 < r then f + 1 else if f % 2 = 0 then f else f + 1

/-- `x` rounded to `p` decimal places, as a number of `10^-p` ticks (`round(x, p) * 10**p`) -/
def roundTicks (x : Rat) (p : Nat) : Nat := (roundHalfEven (x * ((10 ^ p : Nat) : Rat))).toNat

def natStr (n : Nat) : List Char := Nat.toDigits 10 n

/-- `'%0*d' % (p, n)` -/
def padZeros (p : Nat) (ds : List Char) : List Char := List.replicate (p - ds.length) '0' ++ ds

/-- `f"{s:.{p}f}"` for `s = whole + frac / 10^p`, `frac < 10^p` -/
def fixedStr (whole frac p : Nat) : List Char :=
  if p = 0 then natStr whole else natStr whole ++ '.' :: padZeros p (natStr frac)

/-- the seconds given to `timestr`/`timestr_approx`: an `int` (or `bool`) or a `float` -/
inductive Secs where
  | int (n : Int)
  | float (q : Rat)
  deriving DecidableEq, Repr, Inhabited

/-- `sep.join(parts)` -/
def joinParts (sep : List Char) : List (List Char) → List Char
  | [] => []
  | [p] => p
  | p :: ps => p ++ sep ++ joinParts sep ps

/-- `timestr` after the rounding step: `ticks` units of `10^-p` seconds; `p = 0` and
    `showFrac = false` for an `int` argument -/
def timestrTicks (ticks p : Nat) (sep : List Char) : List Char :=
  let whole := ticks / 10 ^ p
  let frac := ticks % 10 ^ p
  let d := whole / Gen.secPerDay
  let s := whole % Gen.secPerDay
  let h := s / Gen.secPerHour
  let s := s % Gen.secPerHour
  let m := s / Gen.secPerMin
  let s := s % Gen.secPerMin
  joinParts sep (
    (if d ≠ 0 then [natStr d ++ ['d']] else []) ++
    (if d ≠ 0 ∨ h ≠ 0 then [natStr h ++ ['h']] else []) ++
    [natStr m ++ ['m'], fixedStr s frac p ++ ['s']])

/-- `timestr(seconds, sep, prec)`; `none` = ValueError (negative) -/
def timestr (x : Secs) (sep : List Char) (prec : Nat) : Option (List Char) :=
  match x with
  | .int n => if n < 0 then none else some (timestrTicks n.toNat 0 sep)
  | .float q => if q < 0 then none else some (timestrTicks (roundTicks q prec) prec sep)

/-! ### timestr_approx -/

/-- `round(x, p)` as a rational -/
def roundTo (x : Rat) (p : Nat) : Rat := (roundTicks x p : Rat) / ((10 ^ p : Nat) : Rat)

/-- `unit * int(x / unit + 0.5)` for `x ≥ 0` -/
def roundUnit (x : Rat) (unit : Nat) : Nat := unit * (x / (unit : Rat) + 1 / 2).floor.toNat

/-- the value while it travels through `timestr_approx`: still a float (with the decimal places
    chosen so far) or already an int -/
structure AVal where
  v : Rat
  isFloat : Bool
  sprec : Nat
  deriving DecidableEq, Repr

/-- the four `if`s under `isinstance(seconds, float)` -/
def approxFloat (q : Rat) : AVal :=
  let a : AVal := ⟨q, true, 0⟩
  let a := if a.v < 1 then ⟨roundTo a.v 3, true, 3⟩ else a
  let a := if 1 ≤ a.v ∧ a.v < 10 then ⟨roundTo a.v 2, true, 2⟩ else a
  let a := if 10 ≤ a.v ∧ a.v < 60 then ⟨roundTo a.v 1, true, 1⟩ else a
  if 60 ≤ a.v ∧ a.v < ((10 * Gen.secPerHour : Nat) : Rat) then ⟨((roundHalfEven a.v).toNat : Rat), false, 0⟩ else a

structure ARounded where
  a : AVal
  omitMin : Bool
  omitSec : Bool
  deriving DecidableEq, Repr

/-- the two `if`s for ints and floats: minutes from 10 hours, hours from 10 days -/
def approxCoarse (a : AVal) : ARounded :=
  let r : ARounded := ⟨a, false, false⟩
  let r := if ((10 * Gen.secPerHour : Nat) : Rat) ≤ r.a.v ∧ r.a.v < ((10 * Gen.secPerDay : Nat) : Rat)
    then ⟨⟨(roundUnit r.a.v Gen.secPerMin : Rat), false, 0⟩, false, true⟩ else r
  if ((10 * Gen.secPerDay : Nat) : Rat) ≤ r.a.v
    then ⟨⟨(roundUnit r.a.v Gen.secPerHour : Rat), false, 0⟩, true, true⟩ else r

/-- the value `timestr_approx` prints (what `convert` should give back) -/
def approxValue (x : Secs) : Rat :=
  match x with
  | .int n => (approxCoarse ⟨(n : Rat), false, 0⟩).a.v
  | .float q => (approxCoarse (approxFloat q)).a.v

/-- the `parts` of `timestr_approx`: days and hours when needed, minutes unless omitted or
    nothing but seconds is there, seconds unless omitted -/
def approxParts (d h m s frac p : Nat) (omitMin omitSec : Bool) (sep : List Char) : List Char :=
  joinParts sep (
    (if d ≠ 0 then [natStr d ++ ['d']] else []) ++
    (if d ≠ 0 ∨ h ≠ 0 then [natStr h ++ ['h']] else []) ++
    (if omitMin = false ∧ (d ≠ 0 ∨ h ≠ 0 ∨ m ≠ 0) then [natStr m ++ ['m']] else []) ++
    (if omitSec = false then [fixedStr s frac p ++ ['s']] else []))

/-- the printing part of `timestr_approx` on ticks -/
def approxRender (r : ARounded) (sep : List Char) : List Char :=
  let p := if r.a.isFloat then r.a.sprec else 0
  let ticks := roundTicks r.a.v p        -- exact: the value is on the grid
  let whole := ticks / 10 ^ p
  let frac := ticks % 10 ^ p
  let d := whole / Gen.secPerDay
  let s := whole % Gen.secPerDay
  let h := s / Gen.secPerHour
  let s := s % Gen.secPerHour
  let m := if r.omitMin then 0 else s / Gen.secPerMin
  let s := if r.omitMin then s else s % Gen.secPerMin
  approxParts d h m s frac p r.omitMin r.omitSec sep

/-- `timestr_approx(seconds, sep)`; `none` = ValueError (negative) -/
def timestrApprox (x : Secs) (sep : List Char) : Option (List Char) :=
  match x with
  | .int n => if n < 0 then none else some (approxRender (approxCoarse ⟨(n : Rat), false, 0⟩) sep)
  | .float q => if q < 0 then none else some (approxRender (approxCoarse (approxFloat q)) sep)

end Edzed.TimeUnits
