/-
Model of the circuit construction / finalisation code (C15):

* `Block.__init__` / `Circuit.addblock` / `check_not_finalized` / `set_persistent_data`
  (edzed/block.py, edzed/simulator.py),
* `CBlock.connect`, `input_signature`, `check_signature`, `get_conf` (edzed/block.py),
* `Circuit._validate_blk` (names, `_ctrl`, `_not_NAME` inverters, Const wrapping, foreign blocks),
* `Circuit._finalize` (two passes) and `finalize`,
* `_BlockResolver.register/resolve` (event destinations, filter control blocks),
* the part of `run_forever` up to the `start()` calls of the blocks.

A block is identified by its name (names are unique inside one circuit).  A reference given to
`connect()` is a `Ref`; after `_validate_blk` it is either `obj false name` (a block object of
this circuit) or `const v` (a `Const`) -- the very same container (`CBlock.inputs`) holds the
unresolved and the resolved form, as in the code.

The model mirrors the code WITH the repair `patches/C15-finalize-resolves-names.diff`:
`Circuit.finalize()` runs the name resolver before `_finalize()` (documented: "Names get
resolved to objects during the circuit finalization").
-/
import EdzedModel.Basic.Val

namespace Edzed.Wiring

inductive Err where
  | keyError | valueError | typeError | invalidState | circuitError
  deriving DecidableEq, Repr, Inhabited

/-- what `check_signature` may be told to expect for one input: `None` (a single input), an exact
    group size, a `(min, max)` range with optional bounds, or something that is none of these -/
inductive Expect where
  | single
  | exact (n : Nat)
  | range (lo hi : Option Nat)
  | malformed
  deriving DecidableEq, Repr, Inhabited

/-- what `inspect.signature(func)` says about the function of a `FuncBlock` (no positional-only
    parameters): positional-or-keyword parameters and keyword-only parameters with "has a default",
    `*args`, `**kwargs` -/
structure FSig where
  pos : List (String × Bool) := []
  varargs : Bool := false
  kwonly : List (String × Bool) := []
  varkw : Bool := false
  deriving DecidableEq, Repr, Inhabited

/-- `inspect.Signature.bind(*args, **kwargs)` with `n` positional arguments and the keywords `kw`
    does not raise TypeError -/
def FSig.binds (f : FSig) (n : Nat) (kw : List String) : Bool :=
  (decide (n ≤ f.pos.length) || f.varargs) &&
  kw.all (fun k => !((f.pos.take n).any (·.1 == k)) &&
    (((f.pos.drop n).any (·.1 == k)) || f.kwonly.any (·.1 == k) || f.varkw)) &&
  (f.pos.drop n).all (fun p => p.2 || kw.contains p.1) &&
  f.kwonly.all (fun p => p.2 || kw.contains p.1)

/-- classes of combinational blocks that differ in `start()`:
    `Not` (signature `{'_': 1}`), `Override` (`{'input': None, 'override': None}`),
    `FuncBlock` with a function accepting anything (no constraint),
    a custom block whose `start()` calls `check_signature(esig)` -/
inductive CCls where
  | not | ovr | any
  | sig (esig : List (String × Expect))
  | func (f : FSig) (unpack : Bool)      -- `FuncBlock(func=…, unpack=…)`: `start()` binds the connected inputs
  deriving DecidableEq, Repr, Inhabited

inductive BKind where
  | s                 -- sequential block (Input, ControlBlock)
  | c (cls : CCls)    -- combinational block
  deriving DecidableEq, Repr, Inhabited

def BKind.isC : BKind → Bool
  | .c _ => true
  | .s => false

/-- what `connect()` may be given for one single input -/
inductive Ref where
  | obj (foreign : Bool) (name : String)   -- a Block object (of this / of another circuit)
  | name (s : String)                      -- a string
  | const (v : Val)                        -- a `Const` object
  | val (v : Val)                          -- any other Python value
  deriving DecidableEq, Repr, Inhabited

inductive Inp where
  | single (r : Ref)
  | group (rs : List Ref)
  deriving DecidableEq, Repr, Inhabited

def Inp.refs : Inp → List Ref
  | .single r => [r]
  | .group rs => rs

/-- value of the input signature: `None` for a single input, the size for a group -/
def Inp.sigVal : Inp → Option Nat
  | .single _ => none
  | .group rs => some rs.length

abbrev Inputs := List (String × Inp)

def allRefs (l : Inputs) : List Ref := l.flatMap (fun p => p.2.refs)

/-- a reference held by an `Event` (`_dest`) or a filter (`_ctrl_blk`, `block`) -/
inductive SRef where
  | name (s : String)
  | obj (n : String)         -- a block object of this circuit
  deriving DecidableEq, Repr, Inhabited

structure Slot where
  ref : SRef
  needS : Bool               -- required type is SBlock (Event, IfNotIitialized), else any Block
  deriving DecidableEq, Repr, Inhabited

structure Circ where
  order : List String := []                          -- `Circuit._blocks` keys, insertion order
  kind : String → Option BKind := fun _ => none
  inputs : String → Inputs := fun _ => []            -- `CBlock.inputs`
  iconn : String → List String := fun _ => []        -- `CBlock.iconnections`
  oconn : String → List String := fun _ => []        -- `Block.oconnections`
  finalized : Bool := false
  stopped : Bool := false                            -- `Circuit._error is not None`
  slots : List Slot := []                            -- objects registered with the resolver
  storage : Option Nat := none                       -- which `persistent_dict` is installed
  deriving Inhabited

def upd {α : Type} (f : String → α) (k : String) (v : α) : String → α :=
  fun x => if x = k then v else f x

def addSet (l : List String) (x : String) : List String := if x ∈ l then l else l ++ [x]

def startsUnderscore (s : String) : Bool :=
  match s.toList with
  | '_' :: _ => true
  | _ => false

/-- `blk.startswith('_not_') and blk[5:6] != '_'`: the name the inverter is connected to -/
def notTarget? (s : String) : Option String :=
  match s.toList with
  | '_' :: 'n' :: 'o' :: 't' :: '_' :: rest =>
    match rest with
    | '_' :: _ => none
    | _ => some (String.ofList rest)
  | _ => none

/-! ### construction -/

/-- `Circuit.check_not_finalized` -/
def checkNotFinalized (c : Circ) : Except Err Unit :=
  if c.stopped then .error .invalidState
  else if c.finalized then .error .invalidState
  else .ok ()

/-- `Circuit.set_persistent_data` -/
def setStorage (c : Circ) (d : Option Nat) : Except Err Circ :=
  match checkNotFinalized c with
  | .error e => .error e
  | .ok () => .ok { c with storage := d }

/-- `Block.__init__` (name checks) + `Circuit.addblock` -/
def addBlock (c : Circ) (n : String) (k : BKind) (reserved : Bool) : Except Err Circ :=
  if n.isEmpty then .error .valueError
  else if startsUnderscore n && !reserved then .error .valueError
  else match checkNotFinalized c with
    | .error e => .error e
    | .ok () =>
      if (c.kind n).isSome then .error .valueError
      else .ok { c with order := c.order ++ [n], kind := upd c.kind n (some k) }

/-- `_is_multiple` on what the model can express -/
def Ref.isMultiple : Ref → Bool
  | .val (.tup _) => true
  | .val (.lst _) => true
  | _ => false

/-- keyword arguments: `tuple(inp) if _is_multiple(inp) else inp` -/
def normInp : Inp → Inp
  | .single (.val (.tup l)) => .group (l.map fun a => .val (.atom a))
  | .single (.val (.lst l)) => .group (l.map fun a => .val (.atom a))
  | i => i

def connectInputs (pos : List Ref) (named : Inputs) : Inputs :=
  (if pos.isEmpty then [] else [("_", Inp.group pos)]) ++ named.map fun p => (p.1, normInp p.2)

/-- `CBlock.connect(*pos, **named)` of block `b` -/
def connect (c : Circ) (b : String) (pos : List Ref) (named : Inputs) : Except Err Circ :=
  match c.kind b with
  | some (.c _) =>
    match checkNotFinalized c with
    | .error e => .error e
    | .ok () =>
      if !(c.inputs b).isEmpty then .error .invalidState
      else if pos.isEmpty && named.isEmpty then .error .valueError
      else if named.any (fun p => p.1 == "_") then .error .valueError
      else if pos.any Ref.isMultiple then .error .valueError
      else .ok { c with inputs := upd c.inputs b (connectInputs pos named) }
  | _ => .error .typeError      -- only CBlocks have `connect`

/-- `CBlock.input_signature` -/
def inputSignature (c : Circ) (b : String) : Except Err (List (String × Option Nat)) :=
  if (c.inputs b).isEmpty then .error .invalidState
  else .ok ((c.inputs b).map fun p => (p.1, p.2.sigVal))

/-- the inner `valuediff_msg(name, value, expected)`: `true` = a message is returned, the item does
    not match.  `value`: `None` for a single input, the size for a group (0 included) -/
def valueDiff : Expect → Option Nat → Bool
  | .single, none => false
  | .single, some _ => true                 -- a group (of ANY size) where a single input is expected
  | _, none => true                         -- a single input where a group is expected
  | .exact n, some k => k != n
  | .range lo hi, some k =>
    (match lo with | some l => decide (k < l) | none => false) ||
    (match hi with | some h => decide (k > h) | none => false)
  | .malformed, some _ => true              -- `cmin, cmax = expected` fails: ValueError

/-- Python's `bsig == esig` on the two dicts (a range never equals a number) -/
def sigEq (bsig : List (String × Option Nat)) (esig : List (String × Expect)) : Bool :=
  bsig.length == esig.length && esig.all fun p =>
    match p.2, bsig.lookup p.1 with
    | .single, some none => true
    | .exact n, some (some k) => k == n
    | _, _ => false

/-- `bsig.keys() == esig.keys()` (both are dicts: no repeated keys) -/
def sameKeys (bsig : List (String × Option Nat)) (esig : List (String × Expect)) : Bool :=
  bsig.length == esig.length && esig.all fun p => (bsig.lookup p.1).isSome

/-- `CBlock.check_signature` -/
def checkSignature (c : Circ) (b : String) (esig : List (String × Expect)) : Except Err Unit :=
  match inputSignature c b with
  | .error e => .error e
  | .ok bsig =>
    if sigEq bsig esig then .ok ()
    else if !sameKeys bsig esig then .error .valueError
    else if esig.any (fun p =>
        match bsig.lookup p.1 with
        | some v => valueDiff p.2 v
        | none => true) then .error .valueError
    else .ok ()

/-- what the ValueError of `check_signature` says -/
inductive SigDiag where
  | names (unexpected missing : List String)   -- "unexpected: …, missing: …" (`setdiff_msg`)
  | values (bad : List String)                 -- one message per input whose shape differs, in the order of `esig`
  | malformed (name : String)                  -- "check_signature: input NAME: invalid value …"
  deriving DecidableEq, Repr, Inhabited

def keysOf {α : Type} (l : List (String × α)) : List String := l.map (·.1)

/-- the first expectation that is neither `None`, a number nor a pair, met with a group -/
def firstMalformed (bsig : List (String × Option Nat)) : List (String × Expect) → Option String
  | [] => none
  | (k, .malformed) :: rest =>
    match bsig.lookup k with
    | some (some _) => some k
    | _ => firstMalformed bsig rest
  | _ :: rest => firstMalformed bsig rest

/-- `check_signature` after `input_signature()`: `none` = accepted, else what the error reports -/
def sigDiagnosis (bsig : List (String × Option Nat)) (esig : List (String × Expect)) : Option SigDiag :=
  if sigEq bsig esig then none
  else if !sameKeys bsig esig then
    some (.names ((keysOf bsig).filter fun k => !(keysOf esig).contains k)
                 ((keysOf esig).filter fun k => !(keysOf bsig).contains k))
  else
    match firstMalformed bsig esig with
    | some k => some (.malformed k)
    | none =>
      let bad := keysOf (esig.filter fun p =>
        match bsig.lookup p.1 with
        | some v => valueDiff p.2 v
        | none => true)
      if bad.isEmpty then none else some (.values bad)

/-- `check_signature` with its diagnosis -/
def checkSignatureD (c : Circ) (b : String) (esig : List (String × Expect)) :
    Except Err (Option SigDiag) :=
  match inputSignature c b with
  | .error e => .error e
  | .ok bsig => .ok (sigDiagnosis bsig esig)

/-- `CBlock.__init_subclass__`: a combinational block class must not have SBlock add-ons -/
def cblockSubclassAllowed (hasAddon : Bool) : Except Err Unit :=
  if hasAddon then .error .typeError else .ok ()

/-- `CBlock.InputGetter.__getitem__` (`self._in[name]`): the value of a single input, the tuple of
    the values of a group; `out` = the output of a (resolved) input -/
def inputGet {V : Type} (out : Ref → V) (c : Circ) (b name : String) : Except Err (V ⊕ List V) :=
  match (c.inputs b).lookup name with
  | none => .error .keyError
  | some (.single r) => .ok (.inl (out r))
  | some (.group rs) => .ok (.inr (rs.map out))

/-! ### `_validate_blk` -/

def findblock (c : Circ) (s : String) : Except Err (Circ × Ref) :=
  if (c.kind s).isSome then .ok (c, .obj false s) else .error .keyError

def validateName (c : Circ) (s : String) : Except Err (Circ × Ref) :=
  if startsUnderscore s && !(c.kind s).isSome then
    if s == "_ctrl" then
      match addBlock c s .s true with
      | .error e => .error e
      | .ok c1 => .ok (c1, .obj false s)
    else match notTarget? s with
      | some t =>
        match addBlock c s (.c .not) true with
        | .error e => .error e
        | .ok c1 =>
          match connect c1 s [.name t] [] with
          | .error e => .error e
          | .ok c2 => .ok (c2, .obj false s)
      | none => findblock c s
  else findblock c s

/-- `Circuit._validate_blk`: the resolved reference and the circuit (an automatic block may
    have been created) -/
def validateBlk (c : Circ) : Ref → Except Err (Circ × Ref)
  | .const v => .ok (c, .const v)
  | .name s => validateName c s
  | .val (.atom (.str s)) => validateName c s
  | .val .undef => .error .valueError                 -- `Const(UNDEF)`
  | .val v => .ok (c, .const v)
  | .obj foreign n =>
    if foreign || !(c.kind n).isSome then .error .valueError else .ok (c, .obj false n)

/-! ### `_finalize` -/

def validateList (c : Circ) : List Ref → Circ × Except Err (List Ref)
  | [] => (c, .ok [])
  | r :: rs =>
    match validateBlk c r with
    | .error e => (c, .error e)
    | .ok (c1, r') =>
      match validateList c1 rs with
      | (c2, .error e) => (c2, .error e)
      | (c2, .ok rs') => (c2, .ok (r' :: rs'))

def resolveInput (c : Circ) : Inp → Circ × Except Err Inp
  | .single r =>
    match validateBlk c r with
    | .error e => (c, .error e)
    | .ok (c1, r') => (c1, .ok (.single r'))
  | .group rs =>
    match validateList c rs with
    | (c1, .error e) => (c1, .error e)
    | (c1, .ok rs') => (c1, .ok (.group rs'))

/-- the loop over `blk.inputs.items()`: every resolved input is stored at once
    (`done` = the items already replaced) -/
def resolveItems (c : Circ) (b : String) (done : Inputs) : Inputs → Circ × Option Err
  | [] => (c, none)
  | (k, i) :: rest =>
    match resolveInput c i with
    | (c1, .error e) => (c1, some e)
    | (c1, .ok i') =>
      resolveItems { c1 with inputs := upd c1.inputs b (done ++ (k, i') :: rest) } b
        (done ++ [(k, i')]) rest

/-- `blk.iconnections.add(inp); self._blocks[inp.name].oconnections.add(blk)` for non-Const inputs -/
def connectAll (c : Circ) (b : String) : List Ref → Circ
  | [] => c
  | .obj _ a :: rest =>
    connectAll { c with iconn := upd c.iconn b (addSet (c.iconn b) a),
                        oconn := upd c.oconn a (addSet (c.oconn a) b) } b rest
  | _ :: rest => connectAll c b rest

def finalizeBlk (c : Circ) (b : String) : Circ × Option Err :=
  match resolveItems c b [] (c.inputs b) with
  | (c1, some e) => (c1, some e)
  | (c1, none) => (connectAll c1 b (allRefs (c1.inputs b)), none)

def finalizePass (c : Circ) : List String → Circ × Option Err
  | [] => (c, none)
  | b :: rest =>
    match finalizeBlk c b with
    | (c1, some e) => (c1, some e)
    | (c1, none) => finalizePass c1 rest

def cblockNames (c : Circ) : List String :=
  c.order.filter fun n => match c.kind n with | some (.c _) => true | _ => false

def notNames (c : Circ) : List String :=
  c.order.filter fun n => c.kind n == some (.c .not)

/-- `Circuit._finalize`: pass over all CBlocks, then over all `Not` blocks -/
def finalizeCore (c : Circ) : Circ × Option Err :=
  match finalizePass c (cblockNames c) with
  | (c1, some e) => (c1, some e)
  | (c1, none) => finalizePass c1 (notNames c1)

/-! ### resolver -/

/-- `_BlockResolver.register` -/
def register (c : Circ) (r : SRef) (needS : Bool) : Except Err Circ :=
  match r with
  | .name _ => .ok { c with slots := c.slots ++ [⟨r, needS⟩] }
  | .obj n =>
    match c.kind n with
    | none => .error .typeError
    | some k =>
      if needS && k != .s then .error .typeError
      else .ok { c with slots := c.slots ++ [⟨r, needS⟩] }

/-- `_BlockResolver.resolve` -/
def resolveSlots (c : Circ) (done : List Slot) : List Slot → Circ × Option Err
  | [] => ({ c with slots := done }, none)
  | sl :: rest =>
    match sl.ref with
    | .obj _ => resolveSlots c (done ++ [sl]) rest
    | .name s =>
      match validateBlk c (.name s) with
      | .error e => ({ c with slots := done ++ sl :: rest }, some e)
      | .ok (c1, _) =>
        if sl.needS && c1.kind s != some .s then
          ({ c1 with slots := done ++ sl :: rest }, some .typeError)
        else resolveSlots c1 (done ++ [{ sl with ref := .obj s }]) rest

def resolve (c : Circ) : Circ × Option Err := resolveSlots c [] c.slots

/-- `Event.dest` / the filter's attribute -/
def slotDest (c : Circ) (i : Nat) : Except Err String :=
  match c.slots[i]? with
  | some ⟨.obj n, _⟩ => .ok n
  | _ => .error .invalidState

/-! ### `finalize`, start -/

/-- `Circuit.finalize` (repaired: the resolver runs first) -/
def finalize (c : Circ) : Circ × Option Err :=
  if c.finalized then (c, none)
  else match resolve c with
    | (c1, some e) => (c1, some e)
    | (c1, none) =>
      match finalizeCore c1 with
      | (c2, some e) => (c2, some e)
      | (c2, none) => ({ c2 with finalized := true }, none)

/-- how `FuncBlock.calc_output` calls the function: the members of the unnamed group as positional
    arguments (`unpack`) or the whole group as ONE argument, every other input by keyword -/
def callShape (unpack : Bool) (ins : Inputs) : Nat × List String :=
  let n := match ins.lookup "_" with
    | some i => i.refs.length
    | none => 0
  (if unpack then n else 1, (ins.filter fun p => p.1 != "_").map (·.1))

/-- `FuncBlock.start`: the function must be callable with the connected inputs -/
def funcStart (f : FSig) (unpack : Bool) (ins : Inputs) : Except Err Unit :=
  if f.binds (callShape unpack ins).1 (callShape unpack ins).2 then .ok () else .error .typeError

def expectedSig : CCls → Option (List (String × Expect))
  | .not => some [("_", .exact 1)]
  | .ovr => some [("input", .single), ("override", .single)]
  | .any => none
  | .sig esig => some esig
  | .func _ _ => none

/-- `blk.start()` for all blocks in circuit order -/
def startBlocks (c : Circ) : List String → Option Err
  | [] => none
  | b :: rest =>
    match c.kind b with
    | some (.c (.func f unpack)) =>
      match funcStart f unpack (c.inputs b) with
      | .error e => some e
      | .ok () => startBlocks c rest
    | some (.c cls) =>
      match expectedSig cls with
      | some esig =>
        match checkSignature c b esig with
        | .error e => some e
        | .ok () => startBlocks c rest
      | none => startBlocks c rest
    | _ => startBlocks c rest

/-- `run_forever` up to and including the `start()` calls; afterwards the circuit is used up -/
def start (c : Circ) : Circ × Option Err :=
  if c.stopped then (c, some .invalidState)
  else if c.order.isEmpty then ({ c with stopped := true }, some .circuitError)
  else match resolve c with
    | (c1, some e) => ({ c1 with stopped := true }, some e)
    | (c1, none) =>
      match finalize c1 with
      | (c2, some e) => ({ c2 with stopped := true }, some e)
      | (c2, none) => ({ c2 with stopped := true }, startBlocks c2 c2.order)

/-! ### `get_conf` -/

def constName (v : Val) : String := "<Const " ++ v.render ++ ">"

/-- `.name` of a resolved input -/
def Ref.confName : Ref → Option String
  | .obj _ n => some n
  | .const v => some (constName v)
  | _ => none

inductive ConfInp where
  | single (n : String)
  | group (ns : List String)
  deriving DecidableEq, Repr, Inhabited

def Inp.conf : Inp → Option ConfInp
  | .single r => r.confName.map .single
  | .group rs => (rs.mapM Ref.confName).map .group

/-- `get_conf()['inputs']`: `none` = key absent (not finalized); inner `none` = AttributeError
    (an unresolved reference has no `.name`) -/
def getConfInputs (c : Circ) (b : String) : Option (Option (List (String × ConfInp))) :=
  if c.finalized then
    some ((c.inputs b).mapM fun p => (p.2.conf).map fun x => (p.1, x))
  else none

def ConfInp.sigVal : ConfInp → Option Nat
  | .single _ => none
  | .group ns => some ns.length

end Edzed.Wiring
