/-
Model of `edzed.Repeat` (edzed/blocklib/sblocks1.py) on the integer-microsecond clock.

What is mirrored
* `Repeat.__init__`: `interval > 0`, `count is None or count >= 0`  (`Cfg.make?`);
* `Repeat._event`: an event of another type is ignored; a matching one gets
  `data['orig_source'] = data.get('source')`, the output becomes 0, the event is forwarded
  synchronously with `repeat=0` (`Event.send` then overwrites `source` with the block's name)
  and the data is queued for the main task (`arrive`);
* `Repeat._maintask`: while an event is being repeated the task sits in
  `wait_for(queue.get(), interval)`; a timeout increments `repeat`, copies it to the output and
  re-sends the queued data with that `repeat` value; repeating goes on while
  `count is None or repeat < count` (`fire`, `advance`);
* a destination that REFUSES a delivery (`Resp`; the answers are part of the state as the script
  `State.resp` of the environment): at the synchronous forward the exception leaves `_event` before
  `self._queue.put_nowait(data)` – nothing is queued, the event is never repeated, an event being
  repeated goes on; `EdzedUnknownEvent` is re-raised to the sender without abort, anything else
  aborts the simulation in `SBlock.event`. At a repetition the exception is raised inside the
  monitored main task, which aborts the simulation (`AddonAsync._task_monitor`);
* `ExtEvent.send` refuses with EdzedInvalidState once the simulation is not running (`deliver`);
* `AddonMainTask.stop_async`: the main task is cancelled, events are still handled by `_event`
  during the clean-up but nothing is repeated any more (`stop`).

The model mirrors the code WITH the two repairs of patches/C18-*.diff:
* `repeat` is an ordinary data item that the block overwrites (`{**data, 'repeat': n}`) – the
  unrepaired code passes it twice to `send()` when the incoming event already carries a `repeat`
  item (a Repeat feeding a Repeat) and dies with a TypeError;
* the explicit same-iteration rule: an event arriving in the loop iteration in which the
  `wait_for` timeout fires (placements `B` and `T` of DESIGN.md 2.3 at `t = deadline`) supersedes
  the timeout – the old event is NOT re-sent (unrepaired: it is, after the new one). With
  placement `A` the loop was quiescent at `t` before the arrival, so the timeout came first.

asyncio rules relied upon (validated by the correspondence, not verified): `wait_for` started at
virtual time `t` with timeout `i` expires at `t + i`; the task processes a queued item in the
instant of its arrival; timer callbacks of one loop iteration all run before a woken task resumes.
-/
import EdzedModel.Basic.Val

namespace Edzed.Repeat

structure Cfg where
  name : String
  etype : String
  /-- µs -/
  interval : Nat
  count : Option Nat
  deriving Repr, Inhabited, DecidableEq

/-- the constructor's checks: `interval <= 0` and `count < 0` raise ValueError -/
def Cfg.make? (name etype : String) (interval : Int) (count : Option Int) : Option Cfg :=
  if interval ≤ 0 then none
  else match count with
    | none => some ⟨name, etype, interval.toNat, none⟩
    | some n => if n < 0 then none else some ⟨name, etype, interval.toNat, some n.toNat⟩

/-- the event the main task is repeating (it waits in `wait_for(queue.get(), interval)`) -/
structure Pending where
  /-- the queued data: received items + `orig_source` -/
  data : Data
  /-- repetitions sent so far (local variable `repeat`) -/
  rep : Nat
  /-- µs at which the running `wait_for` times out -/
  deadline : Nat
  deriving Repr, Inhabited, DecidableEq

/-- how the destination block answers a delivery:
    `ok` – handled; `unknown` – it raises `EdzedUnknownEvent` (an event type it does not know:
    `SBlock.event` re-raises it WITHOUT aborting the simulation); `fatal` – any other exception
    (a parameter error, an error inside the destination's handler: the exception passes through
    `Repeat`'s own `SBlock.event`, whose traceback then has more than one level, and the
    simulation is aborted) -/
inductive Resp where
  | ok | unknown | fatal
  deriving Repr, Inhabited, DecidableEq

structure State where
  /-- `Repeat.output` -/
  out : Nat := 0
  /-- `some` iff the main task is repeating an event -/
  cur : Option Pending := none
  /-- the main task is gone and the circuit is not ready: after `stop`, or after an abort -/
  stopped : Bool := false
  /-- environment: the answers the destination will give to the coming deliveries, in order;
      when none is scripted it accepts -/
  resp : List Resp := []
  deriving Repr, Inhabited, DecidableEq

/-- the destination's answer to the next delivery -/
def State.answer (s : State) : Resp :=
  match s.resp with
  | [] => .ok
  | r :: _ => r

/-- an event delivered to the destination block -/
structure Sent where
  t : Nat
  etype : String
  /-- the `repeat` value the block passed to `send()` -/
  rep : Nat
  data : Data
  /-- what the destination answered -/
  resp : Resp
  deriving Repr, Inhabited, DecidableEq

inductive Placement where
  /-- before the timers of the instant run -/
  | B
  /-- as a timer callback of the instant (same loop iteration as a timeout due then) -/
  | T
  /-- after the loop has become quiescent at the instant -/
  | A
  deriving Repr, Inhabited, DecidableEq

/-- `self._count is None or repeat < self._count` -/
def repeating (c : Cfg) (rep : Nat) : Bool :=
  match c.count with
  | none => true
  | some n => rep < n

/-- `data['orig_source'] = data.get('source')` -/
def withOrig (d : Data) : Data := d.set "orig_source" ((d.get? "source").getD Val.none)

/-- what `self._repeated_event.send(self, **{**data, 'repeat': rep})` delivers:
    `Event.send` sets `data['source'] = source.name` -/
def outData (c : Cfg) (d : Data) (rep : Nat) : Data :=
  (d.set "repeat" (Val.int rep)).set "source" (Val.str c.name)

/-- one `asyncio.TimeoutError` in the main task: `set_output(repeat)`, then the re-send.
    When the destination refuses – for whatever reason – the exception is raised INSIDE the main
    task; `AddonAsync._task_monitor` reports it with `circuit.abort()`: the simulation ends. -/
def fire (c : Cfg) (s : State) (p : Pending) : State × Sent :=
  let rep := p.rep + 1
  let x : Sent := ⟨p.deadline, c.etype, rep, outData c p.data rep, s.answer⟩
  match s.answer with
  | .ok =>
    ({ s with
        out := rep
        -- (`stopped` with a pending timeout: only right after an abort, see `arrive`; the clean-up
        --  cancels the task before it can wait again)
        cur := if !s.stopped && repeating c rep
               then some { p with rep := rep, deadline := p.deadline + c.interval } else none
        resp := s.resp.tail }, x)
  | _ => ({ out := rep, cur := none, stopped := true, resp := s.resp.tail }, x)

/-- let the timeouts due at or before `t` happen, oldest first -/
def advanceFuel (c : Cfg) : Nat → State → Nat → State × List Sent
  | 0, s, _ => (s, [])
  | fuel + 1, s, t =>
    match s.cur with
    | none => (s, [])
    | some p =>
      if p.deadline ≤ t then
        let r := fire c s p
        let r' := advanceFuel c fuel r.1 t
        (r'.1, r.2 :: r'.2)
      else (s, [])

/-- `advance t`: the loop runs until virtual time `t` and settles.
    (`t + 1` steps always suffice because deadlines are positive and `interval ≥ 1`.) -/
def advance (c : Cfg) (s : State) (t : Nat) : State × List Sent := advanceFuel c (t + 1) s t

/-- `Repeat._event` followed by the main task picking the item up in the same instant.
    The statement order of `_event` matters: `orig_source`, `set_output(0)`, the synchronous
    forward, and only then `self._queue.put_nowait(data)`. When the forward raises, the
    queueing is skipped – the event will never be repeated and whatever was being repeated
    goes on; `EdzedUnknownEvent` just propagates to the sender, any other exception makes
    `SBlock.event` of the Repeat block abort the simulation. -/
def arrive (c : Cfg) (s : State) (t : Nat) (etype : String) (data : Data) : State × List Sent :=
  if etype != c.etype then (s, [])
  else
    let d := withOrig data
    let x : Sent := ⟨t, c.etype, 0, outData c d 0, s.answer⟩
    match s.answer with
    | .ok =>
      ({ s with
          out := 0
          cur := if !s.stopped && repeating c 0 then some ⟨d, 0, t + c.interval⟩ else none
          resp := s.resp.tail }, [x])
    | .unknown => ({ s with out := 0, resp := s.resp.tail }, [x])
    | .fatal =>
      -- `abort()` was called; the clean-up needs further loop iterations to cancel the main task.
      -- A timeout of this very loop iteration (`B`/`T` arrival at `t = deadline`; nothing was
      -- queued that would supersede it) is already on its way: that one repetition still happens
      -- when the task resumes (`fire` of a stopped block does not re-arm).
      ({ s with
          out := 0
          cur := match s.cur with
            | some p => if p.deadline ≤ t then some p else none
            | none => none
          stopped := true
          resp := s.resp.tail }, [x])

/-- THE SAME-ITERATION RULE: up to which instant timeouts are processed before an arrival at `t` -/
def Placement.horizon (pl : Placement) (t : Nat) : Nat :=
  match pl with
  | .A => t
  | _ => t - 1

/-- an event arriving at virtual time `t` -/
def event (c : Cfg) (s : State) (t : Nat) (pl : Placement) (etype : String) (data : Data) :
    State × List Sent :=
  let r := advance c s (pl.horizon t)
  let r' := arrive c r.1 t etype data
  (r'.1, r.2 ++ r'.2)

/-- what the sender of an event gets back -/
inductive Ret where
  /-- handled (or ignored: another event type) -/
  | ok
  /-- `EdzedUnknownEvent` from the destination, the simulation goes on -/
  | unknown
  /-- another exception, the simulation is aborted -/
  | fatal
  /-- `ExtEvent.send`: EdzedInvalidState, the simulation is not running; the block is not reached -/
  | notReady
  deriving Repr, Inhabited, DecidableEq

/-- an event with its result; `ext`: sent with `ExtEvent.send`, which checks `is_ready()` first -/
def deliver (c : Cfg) (s : State) (t : Nat) (pl : Placement) (etype : String) (data : Data)
    (ext : Bool) : State × List Sent × Ret :=
  let r := advance c s (pl.horizon t)
  if ext && r.1.stopped then (r.1, r.2, .notReady)
  else
    let r' := arrive c r.1 t etype data
    (r'.1, r.2 ++ r'.2,
      if etype != c.etype then .ok
      else match r.1.answer with
        | .ok => .ok
        | .unknown => .unknown
        | .fatal => .fatal)

/-- `stop_async`: the main task is cancelled -/
def stop (s : State) : State := { s with cur := none, stopped := true }

/-! ### operation sequences -/

inductive Op where
  | event (t : Nat) (pl : Placement) (etype : String) (data : Data)
  | advance (t : Nat)
  | stop
  deriving Repr, Inhabited

def step (c : Cfg) (s : State) : Op → State × List Sent
  | .event t pl e d => event c s t pl e d
  | .advance t => advance c s t
  | .stop => (stop s, [])

def run (c : Cfg) : State → List Op → State × List Sent
  | s, [] => (s, [])
  | s, op :: ops =>
    let r := step c s op
    let r' := run c r.1 ops
    (r'.1, r.2 ++ r'.2)

/-! ### a Repeat feeding a Repeat -/

/-- Deliver the events sent by the upstream block to the downstream block, in order.
    The immediate forward of an arrival (`rep = 0`) happens synchronously inside the upstream
    `_event`, i.e. with the placement of the original arrival. A repetition is sent by the upstream
    main task after a timeout; when the downstream timeout falls into the same loop iteration,
    asyncio's heap order decides which of the two tasks resumes first – the recorded choice
    (`true`: the downstream task first, i.e. like `A`; `false`: the upstream one, like `T`) is an
    input; `none` when the number of recorded choices does not fit. -/
def feed (c2 : Cfg) : State → List Sent → Placement → List Bool → Option (State × List Sent × List Bool)
  | s, [], _, fl => some (s, [], fl)
  | s, x :: xs, pl, fl =>
    if x.rep = 0 then
      let r := event c2 s x.t pl x.etype x.data
      (feed c2 r.1 xs pl fl).map fun q => (q.1, r.2 ++ q.2.1, q.2.2)
    else
      match fl with
      | [] => none
      | f :: fl' =>
        let r := event c2 s x.t (if f then .A else .T) x.etype x.data
        (feed c2 r.1 xs pl fl').map fun q => (q.1, r.2 ++ q.2.1, q.2.2)

structure Chain where
  s1 : State := {}
  s2 : State := {}
  deriving Repr, Inhabited

/-- the downstream block after the upstream sends `xs` were delivered and time reached `h` -/
def Chain.finish (c2 : Cfg) (s1 : State) (xs : List Sent) (s2 : State) (pl : Placement) (h : Nat)
    (flags : List Bool) : Option (Chain × List Sent) :=
  match feed c2 s2 xs pl flags with
  | some (s2', ys, []) =>
    let r := advance c2 s2' h
    some (⟨s1, r.1⟩, ys ++ r.2)
  | _ => none

def Chain.event (c1 c2 : Cfg) (ch : Chain) (t : Nat) (pl : Placement) (etype : String) (data : Data)
    (flags : List Bool) : Option (Chain × List Sent) :=
  let r := Repeat.event c1 ch.s1 t pl etype data
  Chain.finish c2 r.1 r.2 ch.s2 pl (pl.horizon t) flags

def Chain.advance (c1 c2 : Cfg) (ch : Chain) (t : Nat) (flags : List Bool) : Option (Chain × List Sent) :=
  let r := Repeat.advance c1 ch.s1 t
  Chain.finish c2 r.1 r.2 ch.s2 .A t flags

def Chain.stop (ch : Chain) : Chain := ⟨Repeat.stop ch.s1, Repeat.stop ch.s2⟩

end Edzed.Repeat
