/-
Model of the small methods around asynchronous initialisation (C05):

  addons.AddonAsyncInit    the init waiter: created by `start()`, released by the first successful `set_output`,
                           awaited by `init_async`
  sblocks2.InitAsync       constructor checks; `init_async` = await the coroutine, `set_output(result)`
  sblocks1.ValuePoll       constructor checks; one pass of the acquisition loop: poll, await a coroutine result,
                           skip UNDEF, `set_output`, sleep
  init_regular of ControlBlock / Repeat / OutputAsync / OutputFunc: the constant they set
  SBlock.get_state (default) and the `_enable_event` context manager

`Obj` holds exactly the attributes these methods touch; `interp` gives the statement language of
Gen/TranslatedAsyncInit.lean its meaning over `Obj`; the functions `ai…`, `ia…`, `vp…` are the model the
properties talk about.  `SBlock.set_output` (C02), `AddonAsync.__init__`, `AddonMainTask.start` (C18) and
`utils.time_period` (C19) are primitives: `sblockSetOutput` keeps what matters here -- UNDEF is refused before
anything changes, a value equal (`==`) to the output changes nothing, otherwise the output is the value; `_output_events = ()` switches the output events off.
-/
import EdzedModel.Basic.Val
import EdzedModel.Gen.TranslatedAsyncInit

namespace Edzed.AsyncInit

open Edzed.Gen.TrAI

/-- what happened, in order (the observable part) -/
inductive Ev where
  | superInit | superStart
  | output (v : Val) (events : Bool)     -- SBlock.set_output stored `v`; output events enabled?
  | sleep                                -- `await asyncio.sleep(self._interval)`
  | waited                               -- `await self._init_event.wait()` returned
  | awaitedCoro | awaitedValue | polled
  deriving DecidableEq, Repr

structure Obj where
  ev : Option Bool := none               -- `_init_event`: none = not created, some b = `is_set()`
  out : Val := .undef                    -- `_output`
  outputEvents : Bool := true            -- false after `self._output_events = ()`
  interval : Option Rat := none          -- `_interval` (None or seconds)
  funcStored : Bool := false
  coroStored : Bool := false
  blockStored : Bool := false            -- `_enable_event._block`
  active : Bool := false                 -- the block's `_event_active`
  saved : Option Bool := none            -- `_enable_event._event_saved`
  trace : List Ev := []
  deriving DecidableEq, Repr

/-- what the surroundings supply to a call -/
structure Env where
  value : Val := .undef                  -- the `value` argument
  polled : Val := .undef                 -- what `self._func()` returns (or what the returned coroutine yields)
  polledIsCoro : Bool := false           -- `asyncio.iscoroutine(value)`
  coroResult : Val := .undef             -- what `await coro(*args)` yields
  coroIsSequence : Bool := true          -- `isinstance(init_coro, Sequence)`
  coroNonEmpty : Bool := true
  periodOfInterval : Option Rat := none  -- `utils.time_period(interval)`
  asyncInitClass : Bool := false         -- `self.set_output` is `AddonAsyncInit.set_output` (ValuePoll)
  deriving Repr

inductive Outcome where
  | done (o : Obj) (r : Option Val)      -- fell off the end / returned (r = the returned value, if any)
  | raised (cls : String) (o : Obj)
  | blocked (o : Obj)                    -- suspended in `await self._init_event.wait()`
  | again (o : Obj)                      -- the end of one pass of a `while True:` body
  | stuck (o : Obj)                      -- model artefact: fuel of the interpreter exhausted
  deriving DecidableEq, Repr

def Outcome.obj : Outcome → Obj
  | .done o _ => o
  | .raised _ o => o
  | .blocked o => o
  | .again o => o
  | .stuck o => o

def Outcome.isDone : Outcome → Bool
  | .done _ _ => true
  | _ => false

def Outcome.isAgain : Outcome → Bool
  | .again _ => true
  | _ => false

/-- `SBlock.set_output` as far as these methods depend on it -/
def sblockSetOutput (o : Obj) (v : Val) : Except String Obj :=
  if v.isUndef then .error "ValueError"
  else if o.out.pyEq v then .ok o          -- `if previous == value: return` (the stored object stays)
  else .ok { o with out := v, trace := o.trace ++ [.output v o.outputEvents] }

/-! ### the model -/

/-- `AddonAsyncInit.set_output`: the waiter is released by the first SUCCESSFUL `set_output`, never twice -/
def aiSetOutput (o : Obj) (v : Val) : Outcome :=
  match sblockSetOutput o v with
  | .error c => .raised c o
  | .ok o1 =>
    match o1.ev with
    | some false => .done { o1 with ev := some true } none
    | some true => .done o1 none
    | none => .raised "AttributeError" o1     -- `start()` was not called (behind the `assert` of the method)

def aiInit (o : Obj) : Obj := { o with ev := none, trace := o.trace ++ [.superInit] }

def aiStart (o : Obj) : Obj := { o with ev := some false, trace := o.trace ++ [.superStart] }

/-- `AddonAsyncInit.init_async`: returns once the waiter has been released -/
def aiInitAsync (o : Obj) : Outcome :=
  match o.ev with
  | some true => .done { o with trace := o.trace ++ [.waited] } none
  | some false => .blocked o
  | none => .raised "AttributeError" o

/-- `InitAsync.__init__`: `init_coro` must be a non-empty sequence -/
def iaInit (env : Env) (o : Obj) : Outcome :=
  if !env.coroIsSequence then .raised "TypeError" o
  else if !env.coroNonEmpty then .raised "ValueError" o
  else .done { o with coroStored := true, trace := o.trace ++ [.superInit] } none

/-- plain `self.set_output(v)` of a block without the add-on -/
def plainSetOutput (o : Obj) (v : Val) : Outcome :=
  match sblockSetOutput o v with
  | .error c => .raised c o
  | .ok o1 => .done o1 none

/-- `InitAsync.init_async`: the result of the coroutine becomes the output -/
def iaInitAsync (env : Env) (o : Obj) : Outcome :=
  plainSetOutput { o with trace := o.trace ++ [.awaitedCoro] } env.coroResult

/-- `ValuePoll.__init__`: the interval must be a positive period -/
def vpInit (env : Env) (o : Obj) : Outcome :=
  match env.periodOfInterval with
  | none => .raised "ValueError" { o with funcStored := true, interval := none }
  | some p =>
    if p ≤ 0 then .raised "ValueError" { o with funcStored := true, interval := some p }
    else .done { o with funcStored := true, interval := some p, trace := o.trace ++ [.superInit] } none

/-- one pass of `ValuePoll._maintask`: UNDEF results are skipped, any other result is the new output -/
def vpPass (env : Env) (o : Obj) : Outcome :=
  let o1 := { o with trace := o.trace ++ [.polled] ++ (if env.polledIsCoro then [.awaitedValue] else []) }
  if env.polled.isUndef then .again { o1 with trace := o1.trace ++ [.sleep] }
  else match aiSetOutput o1 env.polled with
    | .done o2 _ => .again { o2 with trace := o2.trace ++ [.sleep] }
    | r => r

/-- the default `SBlock.get_state` -/
def getState (o : Obj) : Outcome :=
  if o.out.isUndef then .raised "EdzedInvalidState" o else .done o (some o.out)

/-- `_enable_event.__enter__` / `__exit__` -/
def eeEnter (o : Obj) : Obj := { o with saved := some o.active, active := false }
def eeExit (o : Obj) : Outcome :=
  match o.saved with
  | some b => .done { o with active := b } none
  | none => .raised "AttributeError" o

/-! ### the statement language of the translated programs -/

def evalCond (env : Env) (o : Obj) (cur : Val) : Cond → Except String Bool
  | .evIsSet =>
    match o.ev with
    | some b => .ok b
    | none => .error "AttributeError"          -- `None.is_set()` (behind the method's `assert`)
  | .evIsNone => .ok o.ev.isNone
  | .isCoroutine => .ok env.polledIsCoro
  | .valueIsUndef => .ok cur.isUndef
  | .outputIsUndef => .ok o.out.isUndef
  | .intervalIsNone => .ok o.interval.isNone
  | .intervalLeZero =>
    match o.interval with
    | some p => .ok (decide (p ≤ 0))
    | none => .error "TypeError"               -- `None <= 0.0`
  | .coroIsSequence => .ok env.coroIsSequence
  | .coroNonEmpty => .ok env.coroNonEmpty
  | .not c => (evalCond env o cur c).map (!·)
  | .and a b =>
    match evalCond env o cur a with
    | .ok true => evalCond env o cur b
    | r => r
  | .or a b =>
    match evalCond env o cur a with
    | .ok false => evalCond env o cur b
    | r => r

def argVal (cur : Val) : Arg → Val
  | .const v => v
  | .value => cur

/-- one action; `cur` = the local value variable (the `value` argument, the polled value, the result) -/
def doAct (env : Env) (o : Obj) (cur : Val) : Act → Outcome × Val
  | .setEvNone => (.done { o with ev := none } none, cur)
  | .newEv => (.done { o with ev := some false } none, cur)
  | .evSet =>
    match o.ev with
    | some _ => (.done { o with ev := some true } none, cur)
    | none => (.raised "AttributeError" o, cur)
  | .awaitEv => (aiInitAsync o, cur)
  | .superInit => (.done { o with trace := o.trace ++ [.superInit] } none, cur)
  | .superStart => (.done { o with trace := o.trace ++ [.superStart] } none, cur)
  | .superSetOutput a => (plainSetOutput o (argVal cur a), cur)
  | .setOutput a =>
    (if env.asyncInitClass then aiSetOutput o (argVal cur a) else plainSetOutput o (argVal cur a), cur)
  | .storeFunc => (.done { o with funcStored := true } none, cur)
  | .storeInterval => (.done { o with interval := env.periodOfInterval } none, cur)
  | .storeCoro => (.done { o with coroStored := true } none, cur)
  | .callFunc => (.done { o with trace := o.trace ++ [.polled] } none, env.polled)
  | .awaitValue => (.done { o with trace := o.trace ++ [.awaitedValue] } none, cur)
  | .sleepInterval => (.done { o with trace := o.trace ++ [.sleep] } none, cur)
  | .unpackCoro => (.done o none, cur)
  | .awaitCoro => (.done { o with trace := o.trace ++ [.awaitedCoro] } none, env.coroResult)
  | .clearOutputEvents => (.done { o with outputEvents := false } none, cur)
  | .storeBlock => (.done { o with blockStored := true } none, cur)
  | .saveActive => (.done { o with saved := some o.active } none, cur)
  | .setActiveFalse => (.done { o with active := false } none, cur)
  | .restoreActive => (eeExit o, cur)

/-- the interpreter; `fuel` bounds the number of statements executed (the programs are short) -/
def interp (env : Env) : Nat → List Stmt → Obj → Val → Outcome
  | 0, _, o, _ => .stuck o
  | _ + 1, [], o, _ => .done o none
  | fuel + 1, s :: rest, o, cur =>
    match s with
    | .act a =>
      match doAct env o cur a with
      | (.done o1 _, cur1) => interp env fuel rest o1 cur1
      | (r, _) => r
    | .ite c t e =>
      match evalCond env o cur c with
      | .ok true => interp env fuel (t ++ rest) o cur
      | .ok false => interp env fuel (e ++ rest) o cur
      | .error cls => .raised cls o
    | .raise cls => .raised cls o
    | .ret r =>
      match r with
      | .none => .done o none
      | .block => .done o none
      | .output => .done o (some o.out)
    | .forever body =>
      match interp env fuel body o cur with
      | .done o1 _ => .again o1
      | r => r

end Edzed.AsyncInit
