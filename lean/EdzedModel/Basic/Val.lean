/-
Python-like values used by all models.

A value is UNDEF, None, a number (exact rational + the Python kind bool/int/float),
a string, or a flat tuple / list of atoms.  `pyEq` mirrors Python's `==` on this domain
(True == 1 == 1.0, None only equals None, a tuple never equals a list),
`truthy` mirrors `bool(x)` (UNDEF is falsy, see `_UndefType.__bool__`).
NaN and objects with user-defined `__eq__` are outside the domain.
-/

namespace Edzed

inductive Kind where
  | bool | int | float
  deriving DecidableEq, Repr, Inhabited

/-- result kind of Python's binary arithmetic -/
def Kind.join : Kind → Kind → Kind
  | .float, _ => .float
  | _, .float => .float
  | _, _ => .int

inductive Atom where
  | none
  | num (q : Rat) (k : Kind)
  | str (s : String)
  deriving DecidableEq, Repr, Inhabited

inductive Val where
  | undef
  | atom (a : Atom)
  | tup (l : List Atom)
  | lst (l : List Atom)
  deriving DecidableEq, Repr, Inhabited

namespace Atom

def pyEq : Atom → Atom → Bool
  | .none, .none => true
  | .num q _, .num r _ => q == r
  | .str s, .str t => s == t
  | _, _ => false

def truthy : Atom → Bool
  | .none => false
  | .num q _ => q != 0
  | .str s => s != ""

def listEq : List Atom → List Atom → Bool
  | [], [] => true
  | a :: as, b :: bs => a.pyEq b && listEq as bs
  | _, _ => false

end Atom

namespace Val

def none : Val := .atom .none
def int (i : Int) : Val := .atom (.num i .int)
def bool (b : Bool) : Val := .atom (.num (if b then 1 else 0) .bool)
def flt (q : Rat) : Val := .atom (.num q .float)
def str (s : String) : Val := .atom (.str s)

def pyEq : Val → Val → Bool
  | .undef, .undef => true
  | .atom a, .atom b => a.pyEq b
  | .tup a, .tup b => Atom.listEq a b
  | .lst a, .lst b => Atom.listEq a b
  | _, _ => false

def truthy : Val → Bool
  | .undef => false
  | .atom a => a.truthy
  | .tup l => !l.isEmpty
  | .lst l => !l.isEmpty

def isUndef : Val → Bool
  | .undef => true
  | _ => false

/-- hashable in Python (lists are not) -/
def hashable : Val → Bool
  | .lst _ => false
  | _ => true

end Val

/-! ### wire format (no spaces)

`u` UNDEF, `n` None, `b0`/`b1`, `i<int>`, `f<num>/<den>`, `s<hex>`,
`t[a,b]` tuple of atoms, `l[a,b]` list of atoms -/

def hexDigit (n : Nat) : Char :=
  if n < 10 then Char.ofNat (48 + n) else Char.ofNat (87 + n)

def hexVal (c : Char) : Option Nat :=
  if '0' ≤ c ∧ c ≤ '9' then some (c.toNat - 48)
  else if 'a' ≤ c ∧ c ≤ 'f' then some (c.toNat - 87)
  else Option.none

def hexEncode (s : String) : String :=
  String.ofList (s.toUTF8.toList.flatMap fun b => [hexDigit (b.toNat / 16), hexDigit (b.toNat % 16)])

def hexDecodeBytes : List Char → Option (List UInt8)
  | [] => some []
  | [_] => Option.none
  | a :: b :: rest => do
    let x ← hexVal a
    let y ← hexVal b
    let r ← hexDecodeBytes rest
    pure (UInt8.ofNat (16 * x + y) :: r)

def hexDecode (s : String) : Option String := do
  let bs ← hexDecodeBytes s.toList
  String.fromUTF8? (ByteArray.mk bs.toArray)

def ratRender (q : Rat) : String := s!"{q.num}/{q.den}"

def ratParse (s : String) : Option Rat :=
  match s.splitOn "/" with
  | [n] => (fun (i : Int) => (i : Rat)) <$> n.toInt?
  | [n, d] => do
    let i ← n.toInt?
    let k ← d.toNat?
    if k = 0 then Option.none else pure (mkRat i k)
  | _ => Option.none

namespace Atom

def render : Atom → String
  | .none => "n"
  | .num q .bool => if q == 0 then "b0" else "b1"
  | .num q .int => s!"i{q.num}"
  | .num q .float => "f" ++ ratRender q
  | .str s => "s" ++ hexEncode s

def parse (s : String) : Option Atom :=
  match s.toList with
  | ['n'] => some .none
  | ['b', '0'] => some (.num 0 .bool)
  | ['b', '1'] => some (.num 1 .bool)
  | 'i' :: r => (fun (i : Int) => Atom.num i .int) <$> (String.ofList r).toInt?
  | 'f' :: r => (fun q => Atom.num q .float) <$> ratParse (String.ofList r)
  | 's' :: r => Atom.str <$> hexDecode (String.ofList r)
  | _ => Option.none

end Atom

def renderAtoms (l : List Atom) : String :=
  "[" ++ ",".intercalate (l.map Atom.render) ++ "]"

def parseAtoms (s : String) : Option (List Atom) :=
  match s.toList with
  | '[' :: r =>
    match r.reverse with
    | ']' :: m =>
      let body := String.ofList m.reverse
      if body.isEmpty then some [] else (body.splitOn ",").mapM Atom.parse
    | _ => Option.none
  | _ => Option.none

namespace Val

def render : Val → String
  | .undef => "u"
  | .atom a => a.render
  | .tup l => "t" ++ renderAtoms l
  | .lst l => "l" ++ renderAtoms l

def parse (s : String) : Option Val :=
  match s.toList with
  | ['u'] => some .undef
  | 't' :: r => Val.tup <$> parseAtoms (String.ofList r)
  | 'l' :: r => Val.lst <$> parseAtoms (String.ofList r)
  | _ => Val.atom <$> Atom.parse s

end Val

/-- event data: association list, keys unique, kept sorted by the wire format -/
abbrev Data := List (String × Val)

namespace Data

def get? (d : Data) (k : String) : Option Val := (d.find? (·.1 == k)).map (·.2)

def erase (d : Data) (k : String) : Data := d.filter (·.1 != k)

/-- Python `d[k] = v` on a dict: replaces in place or appends -/
def set (d : Data) (k : String) (v : Val) : Data :=
  if d.any (·.1 == k) then d.map (fun p => if p.1 == k then (k, v) else p) else d ++ [(k, v)]

def has (d : Data) (k : String) : Bool := d.any (·.1 == k)

def insertSorted (p : String × Val) : Data → Data
  | [] => [p]
  | q :: r => if p.1 < q.1 then p :: q :: r else q :: insertSorted p r

def sorted (d : Data) : Data := d.foldr insertSorted []

/-- `d{k=v;k=v}`, sorted by key -/
def render (d : Data) : String :=
  "d{" ++ ";".intercalate (d.sorted.map fun p => p.1 ++ "=" ++ p.2.render) ++ "}"

def parse (s : String) : Option Data :=
  match s.toList with
  | 'd' :: '{' :: r =>
    match r.reverse with
    | '}' :: m =>
      let body := String.ofList m.reverse
      if body.isEmpty then some []
      else (body.splitOn ";").mapM fun item =>
        match item.splitOn "=" with
        | [k, v] => (fun x => (k, x)) <$> Val.parse v
        | _ => Option.none
    | _ => Option.none
  | _ => Option.none

end Data

end Edzed
