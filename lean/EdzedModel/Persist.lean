/-
Model of edzed's persistent state (C06).

Mirrors
* `AddonPersistence` (edzed/addons.py): the `event` wrapper (save after a handled event when
  `persistent and sync_state`; an exception while the circuit is not ready disables the block's
  persistence), `save_persistent_state`, `init_from_persistent_data` (expiration rule);
* `Circuit._check_persistent_data`, the two initialisation passes, the save after a complete
  initialisation and the save + `edzed-stop-time` at stop iff `start_ok` (edzed/simulator.py);
* `get_state` / `_restore_state` of Input, Counter, FSM (generic timed FSM, Timer, InputExp),
  TimeDate / TimeSpan.

The FSM part mirrors the code WITH the repair `patches/C04-timer-state-after-fire.diff`
(`_timer_expired` clears `_active_timer` before it delivers the timed event).

Time is the virtual wall clock in integer microseconds.  The storage is a finite map with
value semantics.  The calendar predicate of TimeDate/TimeSpan (config ↦ output at an instant;
`none` = the configuration is refused) is a parameter `cal`.
-/
import EdzedModel.Basic.Val
import EdzedModel.TimeUnits

namespace Edzed.Persist

abbrev Time := Nat

/-! ## storage -/

/-- what a storage slot holds -/
inductive Entry where
  | val (v : Val)                                              -- Input / Counter value, TimeDate / TimeSpan config
  | fsm (state : String) (exp : Option Time) (sdata : Data)    -- `(state, expiry timestamp | None, sdata)`
  | ts (t : Time)                                              -- a float time stamp
  deriving DecidableEq, Repr, Inhabited

abbrev Storage := List (String × Entry)

namespace Storage

def get? : Storage → String → Option Entry
  | [], _ => none
  | (k', e) :: r, k => if k' = k then some e else get? r k

def erase (s : Storage) (k : String) : Storage := s.filter (fun p => !(p.1 == k))

/-- `d[k] = e` -/
def set (s : Storage) (k : String) (e : Entry) : Storage := (k, e) :: erase s k

end Storage

def stopKey : String := "edzed-stop-time"

/-- reserved keys are never removed by the simulator -/
def reserved (k : String) : Bool := k.startsWith "edzed-"

/-! ## block kinds -/

/-- timed event of a timed state -/
inductive TEv where
  | ev (name : String)
  | goto (state : String)
  deriving DecidableEq, Repr, Inhabited

/-- scripts standing for `cond_EVENT` -/
inductive Cond where
  | yes
  | no
  | stateNe (s : String)      -- Timer's `not restartable`: refuse when already in `s`
  | putInput                  -- InputExp.cond_put: `sdata['input'] = data['value']` (KeyError without a value)
  | raise
  deriving DecidableEq, Repr, Inhabited

/-- scripts standing for `enter_STATE` -/
inductive Enter where
  | nop
  | setS (k : String) (v : Val)   -- `self.sdata[k] = v`
  | raise
  | chain (e : String)            -- `self.event(e)`: a chained transition requested by the entry action
  | goto (s : String)             -- `self.event(Goto(s))`
  deriving DecidableEq, Repr, Inhabited

inductive OutMode where
  | state                         -- default `calc_output`
  | isState (s : String)          -- Timer: `state == 'on'`
  | inputExp (expired : Val)      -- InputExp
  deriving DecidableEq, Repr, Inhabited

/-- control tables of an FSM class + the per-instance settings -/
structure FsmCls where
  states : List String
  trans : List (String × Option String × String)       -- (event, from | any, to)
  timers : List (String × Option Nat × TEv)            -- state ↦ (duration µs, `none` = INF_TIME; timed event)
  conds : List (String × Cond)
  enters : List (String × Enter)
  outMode : OutMode
  initState : String
  initSdata : Data
  deriving Repr, Inhabited

inductive Kind where
  | input (initdef : Val)                          -- UNDEF: no default
  | counter (mod : Option Int) (initdef : Int)
  | cal (initdef : Val)                            -- TimeDate / TimeSpan
  | fsm (cls : FsmCls)
  deriving Repr, Inhabited

/-- dynamic state of a block -/
structure Dyn where
  inited : Bool := false
  value : Val := .undef                  -- Input/Counter: the value; TimeDate/TimeSpan: the configuration
  out : Val := .undef
  fstate : String := ""
  timer : Option (Time × TEv) := none    -- the active timer: absolute expiry and the event it delivers
  sdata : Data := []
  entered : List String := []            -- entry actions run in this process, in order
  deriving DecidableEq, Repr, Inhabited

/-- an `on_output` event of a block to another block: `Event(dest, 'put')` (both flags set) or
    `Event(dest, EventCond(etrue, efalse))` with `'put'` / `None` on either side -/
structure Link where
  dest : Nat
  etrue : Bool       -- `'put'` is sent when the new output is truthy (else: no event)
  efalse : Bool      -- `'put'` is sent when the new output is falsy (else: no event)
  deriving DecidableEq, Repr, Inhabited

structure Blk where
  key : String
  kind : Kind
  persistent : Bool
  sync : Bool
  expiration : Option Int                -- µs; `none` = never expires
  dyn : Dyn := {}
  link : Option Link := none             -- (only the start-up `Circ.startL` follows links)
  steps : Nat := 0                       -- `init_steps_completed`: 0, 1 (restore tried), 2 (fully handled)
  restored : Bool := false               -- `_restore_state` was called with the saved state and accepted it
  deriving Repr, Inhabited

/-- microseconds of a duration given in seconds -/
def usOf (q : Rat) : Int := (q * 1000000).floor

/-- the persistence arguments of a block's constructor, as the application writes them -/
structure PArgs where
  persistent : Val := .bool false
  syncState : Val := .bool true
  expiration : Val := .none          -- None | number of seconds | string with time units
  deriving Repr, Inhabited

/-- `AddonPersistence.__init__`: `bool(persistent)`, `bool(sync_state)`, `utils.time_period(expiration)` (which may
    refuse the value: TypeError / ValueError), the key -/
def mkBlk (key : String) (kind : Kind) (a : PArgs) (link : Option Link := none) : Except TimeUnits.PErr Blk :=
  match TimeUnits.timePeriod a.expiration with
  | .error e => .error e
  | .ok x => .ok { key := key, kind := kind, persistent := a.persistent.truthy, sync := a.syncState.truthy,
                   expiration := x.map usOf, link := link }

/-! ## FSM -/

namespace FsmCls

def events (c : FsmCls) : List String := c.trans.map (·.1)

def timerOf (c : FsmCls) (st : String) : Option (Option Nat × TEv) :=
  (c.timers.find? (·.1 == st)).map (·.2)

def timedEv (c : FsmCls) (st : String) : Option TEv := (c.timerOf st).map (·.2)

/-- `_ct_transition[(event, state)]`, else `(event, None)` -/
def next (c : FsmCls) (e st : String) : Option String :=
  match c.trans.find? (fun t => t.1 == e && t.2.1 == some st) with
  | some t => some t.2.2
  | none => (c.trans.find? (fun t => t.1 == e && t.2.1 == none)).map (·.2.2)

def condOf (c : FsmCls) (e : String) : Cond :=
  ((c.conds.find? (·.1 == e)).map (·.2)).getD .yes

def enterOf (c : FsmCls) (st : String) : Enter :=
  ((c.enters.find? (·.1 == st)).map (·.2)).getD .nop

/-- `calc_output`; `none` = it raises (InputExp without `sdata['input']`) -/
def calcOut (c : FsmCls) (st : String) (sd : Data) : Option Val :=
  match c.outMode with
  | .state => some (.str st)
  | .isState s => some (.bool (st == s))
  | .inputExp expired => if st == "valid" then sd.get? "input" else some expired

/-- what `_build_tables` guarantees: timed events exist -/
def tevOk (c : FsmCls) : TEv → Bool
  | .ev e => c.events.contains e
  | .goto s => c.states.contains s

/-- the event an entry action sends to its own block exists (an unknown one would leave the entry action as an
    EdzedUnknownEvent that nobody turns into an abort: finding C09-nested-unknown, outside this model) -/
def enterOk (c : FsmCls) : Enter → Bool
  | .chain e => c.events.contains e
  | _ => true

def valid (c : FsmCls) : Bool :=
  c.enters.all (fun en => c.enterOk en.2)
    && c.timers.all (fun t => c.tevOk t.2.2) && c.trans.all (fun t => c.states.contains t.2.2)
    && c.states.contains c.initState

end FsmCls

/-- result of `SBlock.event` as the caller sees it -/
inductive Res where
  | ret (v : Val)      -- handled, return value
  | paramError         -- the call of the handler failed (missing argument): exception, no abort
  | unknown            -- EdzedUnknownEvent: exception, no abort
  | handlerError       -- exception inside the handler: `circuit.abort()`, exception
  deriving DecidableEq, Repr, Inhabited

inductive Ev where
  | put (v : Option Val)
  | inc (a : Option Val)
  | dec (a : Option Val)
  | reset
  | reconfig (cfg : Val)
  | named (e : String) (v : Option Val)     -- FSM event with an optional `value` item
  | goto (s : String)                       -- `Goto(s)`
  deriving Repr, Inhabited

/-- values with a scripted meaning for `Input(check=…)`: the validator raises / rejects -/
def boomVal : Val := .str "BOOM"
def rejVal : Val := .str "REJ"

/-- effect of the `enter_STATE` script -/
def enterEffect (en : Enter) (d : Dyn) : Dyn :=
  match en with
  | .setS k v => { d with sdata := d.sdata.set k v }
  | _ => d

/-- `_start_timer` in state `st` -/
def armTimer (c : FsmCls) (now : Time) (st : String) (d : Dyn) : Dyn :=
  match c.timerOf st with
  | some (some dur, tev) => { d with timer := some (now + dur, tev) }
  | _ => d

/-- `calc_output` + `set_output` at the end of a transition -/
def finishEnter (c : FsmCls) (st : String) (d : Dyn) : Dyn × Res :=
  match c.calcOut st d.sdata with
  | some o => ({ d with out := o, inited := true }, .ret (.bool true))
  | none => (d, .handlerError)

/-- what a nested `self.event(…)` made by an entry action does while the outer transition is still in progress
    (`_fsm_event_active`) -/
inductive Nested where
  | parked (st : String)      -- accepted: the request is parked in `_next_event`, the call returns True
  | rejected                  -- no transition from the state just entered / condition not satisfied: returns False
  | failed                    -- an exception inside the nested handler: abort, it propagates through the entry action
  deriving DecidableEq, Repr, Inhabited

/-- the nested call of the entry script `en`, made in the state just entered (`d.fstate`); `none`: the script makes
    no call.  The conditions are skipped while the block is not initialised (the initial transition). -/
def nestedEvent (c : FsmCls) (d : Dyn) : Enter → Option Nested
  | .chain e =>
    if !c.events.contains e then some .failed else      -- (excluded by `FsmCls.valid`)
    match c.next e d.fstate with
    | none => some .rejected
    | some st =>
      if !d.inited then some (.parked st) else
      match c.condOf e with
      | .yes => some (.parked st)
      | .no => some .rejected
      | .raise => some .failed
      | .stateNe s => if d.fstate == s then some .rejected else some (.parked st)
      | .putInput => some .failed                       -- (a chained event carries no `value`: KeyError)
  | .goto s => if c.states.contains s then some (.parked s) else some .failed
  | _ => none

/-- `_ct_chainlimit` -/
def FsmCls.chainLimit (c : FsmCls) : Nat := 3 * c.states.length

/-- the loop of `_ctx_event` entering `st` and following the chained transitions requested by the entry actions:
    `_state`, `enter_STATE` (with its nested `event()`), then either the next parked request or timer + output.
    `fuel` = remaining iterations of the `for … in range(_ct_chainlimit)` loop.  The third component lists the
    block's state at the return of every nested `AddonPersistence.event` call that returned normally. -/
def fsmChain (c : FsmCls) (now : Time) : Nat → Dyn → String → Dyn × Res × List Dyn
  | 0, d, _ => (d, .handlerError, [])       -- "Chained state transition limit reached"
  | fuel + 1, d, st =>
    let d1 : Dyn := { d with fstate := st, timer := none, entered := d.entered ++ [st] }
    if c.enterOf st = .raise then (d1, .handlerError, []) else
    let d2 := enterEffect (c.enterOf st) d1
    match nestedEvent c d2 (c.enterOf st) with
    | some (.parked st') =>
      let r := fsmChain c now fuel d2 st'
      (r.1, r.2.1, d2 :: r.2.2)
    | some .failed => (d2, .handlerError, [])
    | some .rejected => ((finishEnter c st (armTimer c now st d2)).1, (finishEnter c st (armTimer c now st d2)).2, [d2])
    | none => ((finishEnter c st (armTimer c now st d2)).1, (finishEnter c st (armTimer c now st d2)).2, [])

/-- enter `st` (exit part: the timer is stopped): `_state`, `enter_STATE`, chained transitions, timer, output -/
def fsmEnter (c : FsmCls) (now : Time) (d : Dyn) (st : String) : Dyn × Res :=
  ((fsmChain c now c.chainLimit d st).1, (fsmChain c now c.chainLimit d st).2.1)

/-- the block's state at the return of every nested `event()` call made during `fsmEnter` -/
def fsmEnterMids (c : FsmCls) (now : Time) (d : Dyn) (st : String) : List Dyn :=
  (fsmChain c now c.chainLimit d st).2.2

/-- `FSM._event` for a named event -/
def fsmNamed (c : FsmCls) (now : Time) (d : Dyn) (e : String) (v : Option Val) : Dyn × Res :=
  if !c.events.contains e then (d, .unknown) else
  match c.next e d.fstate with
  | none => (d, .ret (.bool false))
  | some st =>
    match c.condOf e with
    | .no => (d, .ret (.bool false))
    | .raise => (d, .handlerError)
    | .stateNe s => if d.fstate == s then (d, .ret (.bool false)) else fsmEnter c now d st
    | .putInput =>
      match v with
      | none => (d, .handlerError)
      | some x => fsmEnter c now { d with sdata := d.sdata.set "input" x } st
    | .yes => fsmEnter c now d st

/-! ## events of the other kinds -/

def reduce (m : Option Int) (v : Int) : Int :=
  match m with
  | none => v
  | some m => v.fmod m

def intOf? : Option Val → Option Int
  | none => some 1
  | some (.atom (.num q .int)) => if q.den = 1 then some q.num else none
  | _ => none

def counterSet (m : Option Int) (d : Dyn) (v : Int) : Dyn × Res :=
  let r := reduce m v
  ({ d with value := .int r, out := .int r, inited := true }, .ret (.int r))

def counterVal (d : Dyn) : Int :=
  match d.value with
  | .atom (.num q _) => q.num
  | _ => 0

/-- the event name an FSM sees -/
def Ev.fsmName : Ev → Option (String × Option Val)
  | .put v => some ("put", v)
  | .inc a => some ("inc", a)
  | .dec a => some ("dec", a)
  | .reset => some ("reset", none)
  | .reconfig _ => some ("reconfig", none)
  | .named e v => some (e, v)
  | .goto _ => none

def inputEvent (d : Dyn) : Ev → Dyn × Res
  | .put none => (d, .paramError)
  | .put (some x) =>
    if x = boomVal || x = .undef then (d, .handlerError)      -- the validator raises / `set_output(UNDEF)` raises
    else if x = rejVal then (d, .ret (.bool false))
    else ({ d with value := x, out := x, inited := true }, .ret (.bool true))
  | _ => (d, .unknown)

def counterEvent (m : Option Int) (i : Int) (d : Dyn) : Ev → Dyn × Res
  | .put none => (d, .paramError)
  | .put (some x) => match intOf? (some x) with
    | some v => counterSet m d v
    | none => (d, .handlerError)
  | .inc a => match intOf? a with
    | some v => counterSet m d (counterVal d + v)
    | none => (d, .handlerError)
  | .dec a => match intOf? a with
    | some v => counterSet m d (counterVal d - v)
    | none => (d, .handlerError)
  | .reset => counterSet m d i
  | _ => (d, .unknown)

def calEvent (cal : Val → Option Bool) (d : Dyn) : Ev → Dyn × Res
  | .reconfig cfg => match cal cfg with
    | some b => ({ d with value := cfg, out := .bool b, inited := true }, .ret .none)
    | none => (d, .handlerError)
  | _ => (d, .unknown)

def fsmEvent (c : FsmCls) (now : Time) (d : Dyn) (ev : Ev) : Dyn × Res :=
  match ev with
  | .goto s => if c.states.contains s then fsmEnter c now d s else (d, .handlerError)
  | ev => match ev.fsmName with
    | some (e, v) => fsmNamed c now d e v
    | none => (d, .unknown)

/-- the block's state at the return of every nested `event()` call made while `fsmNamed` runs -/
def fsmNamedMids (c : FsmCls) (now : Time) (d : Dyn) (e : String) (v : Option Val) : List Dyn :=
  if !c.events.contains e then [] else
  match c.next e d.fstate with
  | none => []
  | some st =>
    match c.condOf e with
    | .no => []
    | .raise => []
    | .stateNe s => if d.fstate == s then [] else fsmEnterMids c now d st
    | .putInput =>
      match v with
      | none => []
      | some x => fsmEnterMids c now { d with sdata := d.sdata.set "input" x } st
    | .yes => fsmEnterMids c now d st

def fsmEventMids (c : FsmCls) (now : Time) (d : Dyn) (ev : Ev) : List Dyn :=
  match ev with
  | .goto s => if c.states.contains s then fsmEnterMids c now d s else []
  | ev => match ev.fsmName with
    | some (e, v) => fsmNamedMids c now d e v
    | none => []

/-- the nested `event()` calls a block makes on itself while it handles `ev` (only the entry actions of an FSM do
    that): the block's state at the moment each of them returned, in order -/
def blockMids (k : Kind) (now : Time) (d : Dyn) (ev : Ev) : List Dyn :=
  match k with
  | .fsm c => fsmEventMids c now d ev
  | _ => []

/-- `SBlock.event` (without the persistence wrapper) on an initialised block -/
def blockEvent (k : Kind) (cal : Val → Option Bool) (now : Time) (d : Dyn) (ev : Ev) : Dyn × Res :=
  match k with
  | .input _ => inputEvent d ev
  | .counter m i => counterEvent m i d ev
  | .cal _ => calEvent cal d ev
  | .fsm c => fsmEvent c now d ev

/-! ## get_state / _restore_state -/

/-- `get_state()`; `none` = it raises (uninitialised block) -/
def getState (k : Kind) (d : Dyn) : Option Entry :=
  if !d.inited then none else
  match k with
  | .fsm _ => some (.fsm d.fstate (d.timer.map (·.1)) d.sdata)
  | _ => some (.val d.value)

/-- `_restore_state(entry)` on a fresh block at wall-clock time `now`;
    `none` = the entry was refused (error suppressed) or ignored (timer ran out) -/
def restore (k : Kind) (cal : Val → Option Bool) (now : Time) : Entry → Option Dyn
  | .val v =>
    match k with
    | .input _ =>
      if v = .undef || v = boomVal || v = rejVal then none
      else some { inited := true, value := v, out := v }
    | .counter m _ => match intOf? (some v) with
      | some i => some { inited := true, value := .int (reduce m i), out := .int (reduce m i) }
      | none => none
    | .cal _ => match cal v with
      | some b => some { inited := true, value := v, out := .bool b }
      | none => none
    | .fsm _ => none
  | .fsm st exp sd =>
    match k with
    | .fsm c =>
      if !c.states.contains st then none else
      match c.calcOut st sd with
      | none => none
      | some o =>
        match exp with
        | none => some { inited := true, fstate := st, sdata := sd, out := o }
        | some t =>
          if t ≤ now then none      -- `remaining <= 0`: the timer ran out during the downtime
          else match c.timedEv st with
            | none => none          -- "cannot set a timer for a not timed state"
            | some tev => some { inited := true, fstate := st, sdata := sd, out := o, timer := some (t, tev) }
    | _ => none
  | .ts _ => none

/-- the expiration test of `init_from_persistent_data` -/
def expired (expiration : Option Int) (ts : Option Time) (now : Time) : Bool :=
  match expiration with
  | none => false
  | some x =>
    if x ≤ 0 then true
    else match ts with
      | none => false
      | some t => decide ((t : Int) + x < (now : Int))

/-- `init_from_persistent_data`: the restored state, if any -/
def load (b : Blk) (store : Storage) (ts : Option Time) (cal : Val → Option Bool) (now : Time) : Option Dyn :=
  if !b.persistent then none else
  match store.get? b.key with
  | none => none
  | some e => if expired b.expiration ts now then none else restore b.kind cal now e

/-- `init_regular` + `init_from_value(initdef)`: the dynamic state and whether the handler raised -/
def regularInit (k : Kind) (cal : Val → Option Bool) (now : Time) : Dyn × Bool :=
  match k with
  | .input i =>
    if i = .undef then ({}, false)
    else match inputEvent {} (.put (some i)) with      -- `init_from_value` = `event('put', value=initdef)`
      | (d, .handlerError) => (d, true)
      | (d, _) => (d, false)
  | .counter m i => ({ inited := true, value := .int (reduce m i), out := .int (reduce m i) }, false)
  | .cal i => match cal i with
    | some b => ({ inited := true, value := i, out := .bool b }, false)
    | none => ({}, true)
  | .fsm c =>
    match fsmEnter c now { sdata := c.initSdata } c.initState with
    | (d, .handlerError) => (d, true)
    | (d, _) => (d, false)

/-! ## the circuit -/

inductive Phase where
  | idle          -- not started
  | running       -- initialised, ready
  | aborted       -- an error is pending after a complete initialisation (not ready; the stop follows)
  | failed        -- start-up failed (not ready; the stop follows)
  | stopping      -- states and stop time are saved, the (asynchronous) clean-up is in progress; blocks still
                  -- handle events, FSM timers still fire (`FSM.stop()` comes after the asynchronous clean-up)
  | stoppingF     -- clean-up after a failed start-up
  | stopped
  deriving DecidableEq, Repr, Inhabited

structure Circ where
  blocks : List Blk
  store : Storage
  ts : Option Time := none        -- `persistent_ts`
  now : Time := 0
  phase : Phase := .idle
  startOk : Bool := false
  /-- the blocks of the model were started (false: a `start()` failed before any of them was started), i.e. the
      clean-up calls their `stop()` -/
  started : Bool := true
  deriving Repr, Inhabited

inductive StartMode where
  | ok
  | abortedBefore     -- `abort()` was called before the start
  | startRaises       -- a block's `start()` raises
  deriving DecidableEq, Repr, Inhabited

/-- `save_persistent_state` -/
def saveBlk (s : Storage) (b : Blk) : Storage :=
  if b.persistent then
    match getState b.kind b.dyn with
    | some e => s.set b.key e
    | none => s.erase b.key       -- get_state raised: "remove stale data"
  else s

def saveAll (s : Storage) (bs : List Blk) : Storage := bs.foldl saveBlk s

def persistentKeys (bs : List Blk) : List String := (bs.filter (·.persistent)).map (·.key)

/-- removal of the unused items in `_check_persistent_data` -/
def cleanUnused (s : Storage) (bs : List Blk) : Storage :=
  s.filter (fun p => reserved p.1 || (persistentKeys bs).contains p.1)

/-- the time stamp read by `_check_persistent_data` -/
def readTs (s : Storage) : Option Time :=
  match s.get? stopKey with
  | some (.ts t) => some t
  | _ => none

/-- pass 1: `init_from_persistent_data` of every block -/
def pass1 (bs : List Blk) (store : Storage) (ts : Option Time) (cal : Val → Option Bool) (now : Time) : List Blk :=
  bs.map fun b => match load b store ts cal now with
    | some d => { b with dyn := d, restored := true }
    | none => b

/-- pass 2: the regular initialisation of the blocks that are not initialised yet, in order;
    an initialisation that raises ends the pass (the remaining blocks stay as they are) and
    disables the persistence of the failing block -/
def pass2 (cal : Val → Option Bool) (now : Time) : List Blk → List Blk × Bool
  | [] => ([], true)
  | b :: r =>
    if b.dyn.inited then
      let (r', ok) := pass2 cal now r
      (b :: r', ok)
    else
      match regularInit b.kind cal now with
      | (d, true) => ({ b with dyn := d, persistent := false } :: r, false)
      | (d, false) =>
        let (r', ok) := pass2 cal now r
        ({ b with dyn := d } :: r', ok)

/-- `run_forever` up to the end of the initialisation -/
def Circ.start (c : Circ) (cal : Val → Option Bool) (now : Time) (mode : StartMode) : Circ :=
  if c.phase != .idle then c else
  match mode with
  | .abortedBefore => { c with now := now, phase := .stopped, startOk := false }
  | .startRaises =>
    { c with now := now, phase := .failed, startOk := false, ts := readTs c.store,
             store := cleanUnused c.store c.blocks }
  | .ok =>
    let ts := readTs c.store
    let store := cleanUnused c.store c.blocks
    let (bs, ok) := pass2 cal now (pass1 c.blocks store ts cal now)
    if ok && bs.all (·.dyn.inited) then
      { c with now := now, phase := .running, ts := ts, startOk := true, blocks := bs, store := saveAll store bs }
    else
      { c with now := now, phase := .failed, ts := ts, startOk := true, blocks := bs, store := store }

/-! ## start-up with events between the blocks (`on_output` of a block that gets its output during the
start-up → `put` to another block, unconditionally or through an `EventCond`)

Only links whose destination has no link itself are followed (no chains); anything else, and an
exception raised by the destination's handler inside the sender's `set_output`, is outside the model
(`ok := false`).  The sync save of the event wrapper is modelled WITH the repair
`patches/C06-sync-save-on-uninitialized.diff`: a block that is not initialised is not saved (the
unrepaired code let `save_persistent_state` remove the entry of such a block). -/

structure IState where
  blocks : List Blk
  store : Storage
  ok : Bool := true
  deriving Repr, Inhabited

/-- `if self.persistent and self.sync_state and self.is_initialized(): self.save_persistent_state()` -/
def syncSave (s : Storage) (b : Blk) : Storage :=
  if b.persistent && b.sync && b.dyn.inited then saveBlk s b else s

/-- step 1 of `init_sblock`: `init_from_persistent_data` -/
def init1 (ts : Option Time) (cal : Val → Option Bool) (now : Time) (S : IState) (j : Nat) : IState :=
  match S.blocks[j]? with
  | none => S
  | some b =>
    if b.steps != 0 then S else
    match load b S.store ts cal now with
    | some d => { S with blocks := S.blocks.set j { b with dyn := d, restored := true, steps := 1 } }
    | none => { S with blocks := S.blocks.set j { b with steps := 1 } }

/-- step 2 of `init_sblock`: `init_regular`, `init_from_value(initdef)` when still uninitialised -/
def init2 (cal : Val → Option Bool) (now : Time) (S : IState) (j : Nat) : IState :=
  match S.blocks[j]? with
  | none => S
  | some b =>
    if b.steps != 1 then S else
    if b.dyn.inited then { S with blocks := S.blocks.set j { b with steps := 2 } } else
    match regularInit b.kind cal now with
    | (d, true) => { S with blocks := S.blocks.set j { b with dyn := d, persistent := false, steps := 2 }, ok := false }
    | (d, false) => { S with blocks := S.blocks.set j { b with dyn := d, steps := 2 } }

/-- `AddonPersistence.event('put', value=v)` of block `j` during the start-up: the pending initialisation
    steps first, then the handler, then the sync save -/
def deliver (ts : Option Time) (cal : Val → Option Bool) (now : Time) (S : IState) (j : Nat) (v : Val) : IState :=
  let S1 := init2 cal now (init1 ts cal now S j) j
  match S1.blocks[j]? with
  | none => { S1 with ok := false }
  | some b =>
    if b.link.isSome || b.steps == 0 then { S1 with ok := false } else      -- (`steps = 0` cannot happen here)
    match blockEvent b.kind cal now b.dyn (.put (some v)) with
    | (d, .ret _) =>
      { S1 with blocks := S1.blocks.set j { b with dyn := d }, store := syncSave S1.store { b with dyn := d } }
    | _ => { S1 with ok := false }

/-- the `on_output` event of block `i` whose output has just been set -/
def emit (ts : Option Time) (cal : Val → Option Bool) (now : Time) (S : IState) (i : Nat) : IState :=
  match S.blocks[i]? with
  | none => S
  | some b =>
    match b.link with
    | none => S
    | some l =>
      if (if b.dyn.out.truthy then l.etrue else l.efalse) then
        (if l.dest == i then { S with ok := false } else deliver ts cal now S l.dest b.dyn.out)
      else S        -- the conditional event resolved to "no event": `event()` returns at once, nothing is saved

def initedAt (S : IState) (i : Nat) : Bool :=
  match S.blocks[i]? with
  | some b => b.dyn.inited
  | none => false

/-- the turn of block `i` in `_init_sblocks_sync_1` -/
def turn1 (ts : Option Time) (cal : Val → Option Bool) (now : Time) (S : IState) (i : Nat) : IState :=
  if !S.ok || initedAt S i then S else
  let S1 := init1 ts cal now S i
  if initedAt S1 i then emit ts cal now S1 i else S1

/-- the turn of block `i` in `_init_sblocks_sync_2` -/
def turn2 (ts : Option Time) (cal : Val → Option Bool) (now : Time) (S : IState) (i : Nat) : IState :=
  if !S.ok then S else
  if initedAt S i then init2 cal now S i else
  let S1 := init2 cal now S i
  if initedAt S1 i then emit ts cal now S1 i else S1

/-- `run_forever` up to the end of the initialisation, following the links -/
def Circ.startL (c : Circ) (cal : Val → Option Bool) (now : Time) : Circ :=
  if c.phase != .idle then c else
  let ts := readTs c.store
  let S0 : IState := { blocks := c.blocks, store := cleanUnused c.store c.blocks }
  let idx := List.range c.blocks.length
  let S1 := idx.foldl (turn1 ts cal now) S0
  let S2 := idx.foldl (turn2 ts cal now) S1
  if S2.ok && S2.blocks.all (·.dyn.inited) then
    { c with now := now, phase := .running, ts := ts, startOk := true, blocks := S2.blocks,
             store := saveAll S2.store S2.blocks }
  else
    { c with now := now, phase := .failed, ts := ts, startOk := true, blocks := S2.blocks, store := S2.store }

def Circ.ready (c : Circ) : Bool := c.phase == .running

/-- `AddonPersistence.event` of block `i` at the current instant -/
def Circ.event (c : Circ) (cal : Val → Option Bool) (i : Nat) (ev : Ev) : Option (Circ × Res) :=
  if c.phase != .running && c.phase != .aborted && c.phase != .stopping then none else
  match c.blocks[i]? with
  | none => none
  | some b =>
    let (d, r) := blockEvent b.kind cal c.now b.dyn ev
    match r with
    | .ret _ =>
      let b' := { b with dyn := d }
      some ({ c with blocks := c.blocks.set i b',
                     store := if b.persistent && b.sync then saveBlk c.store b' else c.store }, r)
    | .handlerError =>
      -- `abort()`: the circuit is not ready any more, hence the persistence is switched off
      some ({ c with blocks := c.blocks.set i { b with dyn := d, persistent := false },
                     phase := if c.phase == .running then .aborted else c.phase }, r)
    | _ =>
      -- exception without abort: persistence is switched off only if the circuit is not ready
      some ({ c with blocks := c.blocks.set i { b with dyn := d, persistent := b.persistent && c.ready } }, r)

def tevEv : TEv → Ev
  | .ev e => .named e none
  | .goto s => .goto s

/-- the active timer of block `i` fires (`_timer_expired`): the clock is at its expiry, the timer
    is no longer active, the timed event is delivered through `event` -/
def Circ.fire (c : Circ) (cal : Val → Option Bool) (i : Nat) : Option (Circ × Res) :=
  -- (a timer that is due in the same batch of callbacks still fires after an abort; timers go on
  --  firing during the asynchronous clean-up)
  if c.phase != .running && c.phase != .aborted && c.phase != .stopping then none else
  match c.blocks[i]? with
  | none => none
  | some b =>
    match b.dyn.timer with
    | none => none
    | some (t, tev) =>
      if t < c.now then none else
      Circ.event { c with now := t, blocks := c.blocks.set i { b with dyn := { b.dyn with timer := none } } }
        cal i (tevEv tev)

/-! ### the event wrapper with its nested calls

`AddonPersistence.event` is the outermost `event()` of every persistent-capable block, so a block that sends an
event to itself while it handles one (an FSM entry action requesting a chained transition) re-enters the wrapper.
Mirrors the code WITH the repair `patches/C06-nested-event-saves-intermediate-state.diff`: only the outermost call
saves (the unrepaired code saved at the return of the nested call, i.e. the intermediate state of the transition in
progress). -/

/-- the sync save at the end of one `AddonPersistence.event` call of an initialised block; `nested`: another
    `event()` of the same block was active when the call was made.  The flag says whether the storage was written. -/
def wrapperSave (nested : Bool) (s : Storage) (b : Blk) : Storage × Bool :=
  if !nested && b.persistent && b.sync then (saveBlk s b, true) else (s, false)

/-- the same with the `is_initialized()` test (start-up) -/
def syncSaveN (nested : Bool) (s : Storage) (b : Blk) : Storage := if nested then s else syncSave s b

/-- storage and log of storage snapshots (one after every write) after the nested wrapper calls that returned
    normally, the block being in the states `mids` at those moments -/
def nestedSaves (b : Blk) (mids : List Dyn) (s : Storage) (log : List Storage) : Storage × List Storage :=
  mids.foldl (fun (acc : Storage × List Storage) m =>
    match wrapperSave true acc.1 { b with dyn := m } with
    | (s', true) => (s', acc.2 ++ [s'])
    | (s', false) => (s', acc.2)) (s, log)

/-- `AddonPersistence.event` of block `i` with every wrapper call it contains: the result of `Circ.event` plus the
    storage as it was after each write made during the event (the crash points inside the event) -/
def Circ.eventN (c : Circ) (cal : Val → Option Bool) (i : Nat) (ev : Ev) : Option (Circ × Res × List Storage) :=
  if c.phase != .running && c.phase != .aborted && c.phase != .stopping then none else
  match c.blocks[i]? with
  | none => none
  | some b =>
    let p := blockEvent b.kind cal c.now b.dyn ev
    let n := nestedSaves b (blockMids b.kind c.now b.dyn ev) c.store []
    match p.2 with
    | .ret _ =>
      let b' := { b with dyn := p.1 }
      let w := wrapperSave false n.1 b'
      some ({ c with blocks := c.blocks.set i b', store := w.1 }, p.2, if w.2 then n.2 ++ [w.1] else n.2)
    | .handlerError =>
      some ({ c with blocks := c.blocks.set i { b with dyn := p.1, persistent := false },
                     phase := if c.phase == .running then .aborted else c.phase, store := n.1 }, p.2, n.2)
    | _ =>
      some ({ c with blocks := c.blocks.set i { b with dyn := p.1, persistent := b.persistent && c.ready },
                     store := n.1 }, p.2, n.2)

/-- a timer firing, with the wrapper calls (see `Circ.fire`) -/
def Circ.fireN (c : Circ) (cal : Val → Option Bool) (i : Nat) : Option (Circ × Res × List Storage) :=
  if c.phase != .running && c.phase != .aborted && c.phase != .stopping then none else
  match c.blocks[i]? with
  | none => none
  | some b =>
    match b.dyn.timer with
    | none => none
    | some (t, tev) =>
      if t < c.now then none else
      Circ.eventN { c with now := t, blocks := c.blocks.set i { b with dyn := { b.dyn with timer := none } } }
        cal i (tevEv tev)

/-- earliest expiry of an active timer -/
def nextTimer (bs : List Blk) : Option Time :=
  bs.foldl (fun acc b => match b.dyn.timer, acc with
    | some (t, _), some a => some (min a t)
    | some (t, _), none => some t
    | none, acc => acc) none

/-- time passes without a timer firing -/
def Circ.advance (c : Circ) (t : Time) : Option Circ :=
  if t < c.now then none else
  match nextTimer c.blocks with
  | some w => if (c.phase == .running || c.phase == .stopping) && w ≤ t then none else some { c with now := t }
  | none => some { c with now := t }

/-- the final part of `run_forever` up to its first `await`: every persistent block and the stop time are
    saved iff `start_ok`; nothing of this depends on how the clean-up (`_stop_sblocks`) goes on -/
def Circ.stopBegin (c : Circ) (t : Time) : Circ :=
  if c.phase != .running && c.phase != .aborted && c.phase != .failed then c else
  { c with now := t, phase := if c.phase == .failed then .stoppingF else .stopping,
           store := if c.startOk then (saveAll c.store c.blocks).set stopKey (.ts t) else c.store }

/-- the end of the clean-up at time `t`.  `complete = true`: `_stop_sblocks` ran to its end, every block got
    its `stop()` (FSM timers cancelled).  `complete = false`: the simulation task was cancelled while it
    awaited an asynchronous clean-up (a cancelled `shutdown()`, a second Ctrl-C): the remaining blocks are
    not stopped.  The storage is not touched either way; a stopped FSM does not save any more. -/
def Circ.stopEnd (c : Circ) (t : Time) (complete : Bool) : Circ :=
  if c.phase != .stopping && c.phase != .stoppingF then c else
  { c with now := t, phase := .stopped,
           blocks := if complete then c.blocks.map fun b =>
                       -- `FSM.stop()` (repair /repo: finding C06-late-event-overwrites-saved-timer): the timer is
                       -- cancelled and the block stops saving - what the simulator saved before stays
                       { b with dyn := { b.dyn with timer := none },
                                persistent := match b.kind with | .fsm _ => b.persistent && !c.started | _ => b.persistent }
                     else c.blocks }

/-- a stop whose clean-up takes no time -/
def Circ.stop (c : Circ) (t : Time) : Circ := (c.stopBegin t).stopEnd t true

/-! ## a storage that fails

The storage is the application's `MutableMapping`; its operations may raise (disk full, closed shelf).
`Faults` says which operations raise at the moment.  The functions below say exactly what the code does then:
`save_persistent_state` suppresses an error of the write (and of `get_state()`) and removes the entry — but
the `pop` of that clean-up is not protected; `init_from_persistent_data` suppresses an error of the read;
`_check_persistent_data` and the stop-time write in `run_forever` are not protected at all. -/

structure Faults where
  write : Bool := false          -- `__setitem__` raises
  remove : Bool := false         -- `pop` / `__delitem__` raise
  read : List String := []       -- `__getitem__` of these keys raises (something else than KeyError)
  iter : Bool := false           -- `keys()` / iteration raises
  deriving Repr, Inhabited, DecidableEq

/-- `save_persistent_state` on a failing storage; the flag: an exception leaves the method -/
def saveBlkF (f : Faults) (s : Storage) (b : Blk) : Storage × Bool :=
  if !b.persistent then (s, false) else
  match getState b.kind b.dyn with
  | some e =>
    if f.write then                       -- the write raises inside the `try`: "remove stale data"
      (if f.remove then (s, true) else (s.erase b.key, false))
    else (s.set b.key e, false)
  | none => if f.remove then (s, true) else (s.erase b.key, false)

/-- the saving loops (after the initialisation, at the stop): the first exception ends the loop -/
def saveAllF (f : Faults) (s : Storage) : List Blk → Storage × Bool
  | [] => (s, false)
  | b :: r => match saveBlkF f s b with
    | (s1, true) => (s1, true)
    | (s1, false) => saveAllF f s1 r

/-- what the caller of `event()` gets on a failing storage -/
inductive ResF where
  | res (r : Res)      -- as always
  | saveError          -- the handler returned, then an exception of the storage left the sync save
  deriving DecidableEq, Repr, Inhabited

/-- the sync save of the wrapper redone on the failing storage (`c`: before the event, `c'`: after it) -/
def resave (c c' : Circ) (f : Faults) (i : Nat) (v : Val) : Circ × ResF :=
  match c'.blocks[i]? with
  | some b' =>
    if b'.persistent && b'.sync && b'.dyn.inited then
      match saveBlkF f c.store b' with
      | (s, false) => ({ c' with store := s }, .res (.ret v))
      | (s, true) => ({ c' with store := s }, .saveError)
    else (c', .res (.ret v))
  | none => (c', .res (.ret v))

/-- `AddonPersistence.event` on a failing storage: the handler runs as always; when the sync save lets an
    exception out, the caller gets that exception instead of the handler's result (`saveError`; the
    circuit is not aborted by it) -/
def Circ.eventF (c : Circ) (f : Faults) (cal : Val → Option Bool) (i : Nat) (ev : Ev) : Option (Circ × ResF) :=
  match c.event cal i ev with
  | some (c', .ret v) => some (resave c c' f i v)
  | some (c', r) => some (c', .res r)
  | none => none

/-- a timer fires on a failing storage (an exception of the sync save ends up in the loop's handler) -/
def Circ.fireF (c : Circ) (f : Faults) (cal : Val → Option Bool) (i : Nat) : Option (Circ × ResF) :=
  match c.fire cal i with
  | some (c', .ret v) => some (resave c c' f i v)
  | some (c', r) => some (c', .res r)
  | none => none

/-- the beginning of the stop on a failing storage (with the repair
    `patches/C08-storage-fault-at-stop-skips-cleanup.diff`: the save-and-stamp section of `run_forever` is inside a
    `try` whose handler only logs): the first save that lets an exception out ends the section — the remaining blocks
    are not saved, no stop time is written; a failing stop-time write leaves the saves without a (new) stop time;
    either way the clean-up proceeds as always -/
def Circ.stopBeginF (c : Circ) (f : Faults) (t : Time) : Circ :=
  if c.phase != .running && c.phase != .aborted && c.phase != .failed then c else
  if !c.startOk then c.stopBegin t else
  { c with now := t, phase := if c.phase == .failed then .stoppingF else .stopping,
           store := match saveAllF f c.store c.blocks with
             | (s, true) => s
             | (s, false) => if f.write then s else s.set stopKey (.ts t) }

/-- does `_check_persistent_data` raise?  (read of the stop time, `keys()`, the first `del` of the purge) -/
def checkRaises (f : Faults) (s : Storage) (bs : List Blk) : Bool :=
  f.read.contains stopKey || f.iter ||
    (f.remove && s.any (fun p => !(reserved p.1 || (persistentKeys bs).contains p.1)))

/-- the start on a storage whose reads / purge may fail (writes work): an exception of
    `_check_persistent_data` ends the start before any block is started; an unreadable entry of a block is
    treated as absent (error suppressed) -/
def Circ.startF (c : Circ) (f : Faults) (cal : Val → Option Bool) (now : Time) : Circ :=
  if c.phase != .idle then c else
  if checkRaises f c.store c.blocks then
    { c with now := now, phase := .stopped, startOk := false,
             ts := if f.read.contains stopKey then c.ts else readTs c.store }       -- (the stop time is read first)
  else
  ({ c with store := c.store.filter (fun p => !(f.read.contains p.1)) } : Circ).start cal now .ok

/-! ## histories -/

inductive Op where
  | ev (i : Nat) (e : Ev)
  | fire (i : Nat)
  | adv (t : Time)
  deriving Repr, Inhabited

/-- one operation of a history; an operation that is impossible in the current state changes nothing.
    `env t` is the calendar predicate at instant `t`. -/
def step (env : Time → Val → Option Bool) (c : Circ) : Op → Circ
  | .ev i e => match c.event (env c.now) i e with
    | some (c', _) => c'
    | none => c
  | .fire i => match c.blocks[i]? with
    | some b => match b.dyn.timer with
      | some (t, _) => match c.fire (env t) i with
        | some (c', _) => c'
        | none => c
      | none => c
    | none => c
  | .adv t => (c.advance t).getD c

def run (env : Time → Val → Option Bool) (c : Circ) (ops : List Op) : Circ := ops.foldl (step env) c

end Edzed.Persist
