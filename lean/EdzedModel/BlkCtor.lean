/-
Model of the CONSTRUCTORS and of the circuit registry (C14; edzed/block.py, edzed/simulator.py):

  `check_name`, `Block.__init__` (automatic names, the reserved `_` names, the two-kinds test, the refused
  keywords, the `x_…` / `X_…` attributes, registration with the current circuit), `Block.has_method`,
  `SBlock.__init__`, `CBlock.__init__`, `ExtEvent.__init__`, `Const.__new__ / __init__`,
  `Circuit.__init__` (the initial state every other model starts from), `Circuit.is_current_task`,
  `get_circuit`, `reset_circuit`.

The state is a heap of objects, each with its class (name, the names of the classes it is an instance of, what
`getattr` finds in the class) and its `__dict__` in the order of the assignments, plus the module global
`_current_circuit` and the registry of `Const`.  Classes are identified by their `__name__`.
Functions are written in direct style; `EdzedProofs/BlkCtorTie.lean` proves them equal to the programs
`tools/py2lean_blkctor.py` generates from the current source (`Gen/TranslatedBlkCtor.lean`).
-/
import EdzedModel.BlkCtorPy

namespace Edzed.BlkCtor
open BlkCtorPy

/-- what `getattr(obj, name)` finds in the class of the object -/
inductive Member where
  | dummySync       -- `Block.dummy_method` (the placeholder of an optional method)
  | dummyAsync      -- `Block.dummy_async_method`
  | method          -- any other function
  | data            -- something that is not callable
  | propAttrError   -- a property whose getter raises AttributeError
  | propRuntimeError -- a property whose getter raises RuntimeError
  deriving DecidableEq, Repr, Inhabited

/-- results of primitives that the constructors only store -/
inductive XV where
  | events (a : Arg Nat)        -- `event_tuple(a)`
  | resolver (c : Nat)          -- `_BlockResolver(c._validate_blk)`
  | register (c : Nat)          -- the bound method `c._resolver.register`
  | inputGetter (b : Nat)       -- `CBlock.InputGetter(b)`
  | exc (cls : String)          -- an exception object of this class
  | task (n : Nat)              -- an asyncio task
  deriving DecidableEq, Repr, Inhabited

abbrev Attr := AV Nat XV

structure Obj where
  cls : String := ""                          -- `type(obj).__name__`
  bases : List String := []                   -- the names of all classes it is an instance of
  members : List (String × Member) := []      -- attributes found in the class
  attrs : List (String × Attr) := []          -- `obj.__dict__`, in the order of the first assignment
  deriving DecidableEq, Repr, Inhabited

/-- a `__dict__`: lookup / store of one key (a new key goes to the end) -/
def getKey (l : List (String × Attr)) (k : String) : Option Attr :=
  match l with
  | [] => none
  | p :: r => if p.1 == k then some p.2 else getKey r k

def setKey (l : List (String × Attr)) (k : String) (v : Attr) : List (String × Attr) :=
  match l with
  | [] => [(k, v)]
  | p :: r => if p.1 == k then (k, v) :: r else p :: setKey r k v

def Obj.get? (o : Obj) (k : String) : Option Attr := getKey o.attrs k

def Obj.set (o : Obj) (k : String) (v : Attr) : Obj := { o with attrs := setKey o.attrs k v }

structure World where
  heap : List Obj := []
  current : Option Nat := none                -- `simulator._current_circuit`
  consts : List (Arg Nat × Nat) := []         -- `Const._instances` (entries written)
  curTask : Option (Option Nat) := some none  -- `asyncio.current_task()`; `none`: RuntimeError (no running loop)
  abortRaises : Bool := false                 -- cancelling the simulation task raises (the event loop is closed)
  deriving DecidableEq, Repr, Inhabited

def setAt (h : List Obj) (i : Nat) (k : String) (v : Attr) : List Obj :=
  match h, i with
  | [], _ => []
  | o :: r, 0 => o.set k v :: r
  | o :: r, n + 1 => o :: setAt r n k v

namespace World

def obj (w : World) (i : Nat) : Obj := w.heap.getD i {}
def setAttr (w : World) (i : Nat) (k : String) (v : Attr) : World := { w with heap := setAt w.heap i k v }
def get? (w : World) (i : Nat) (k : String) : Option Attr := (w.obj i).get? k
def alloc (w : World) (o : Obj) : World × Nat := ({ w with heap := w.heap ++ [o] }, w.heap.length)
def className (w : World) (i : Nat) : String := (w.obj i).cls
def isInstance (w : World) (i : Nat) (k : String) : Bool := (w.obj i).bases.contains k

/-- the value of an attribute that holds a str -/
def strAttr (w : World) (i : Nat) (k : String) : String :=
  match w.get? i k with
  | some (.str s) => s
  | some (.arg (.val (.atom (.str s)))) => s
  | _ => ""

def nameOf (w : World) (i : Nat) : String := w.strAttr i "name"

/-- an attribute that is `None` (or missing) -/
def attrIsNone (w : World) (i : Nat) (k : String) : Bool :=
  match w.get? i k with
  | some (.arg a) => a.isNone
  | some (.optobj o) => o.isNone
  | none => true
  | _ => false

/-- the truth value of an attribute -/
def attrTruthy (w : World) (i : Nat) (k : String) : Bool :=
  match w.get? i k with
  | some (.arg a) => a.truthy
  | some (.bool b) => b
  | some (.str s) => s != ""
  | some (.dict l) => !l.isEmpty
  | some (.set l) => !l.isEmpty
  | some (.optobj o) => o.isSome
  | some _ => true
  | none => false

/-- `circuit._blocks` -/
def blocks (w : World) (c : Nat) : List (String × Nat) :=
  match w.get? c "_blocks" with
  | some (.dict l) => l
  | _ => []

/-- `self.circuit` -/
def circuitOf (w : World) (b : Nat) : Option Nat :=
  match w.get? b "circuit" with
  | some (.optobj o) => o
  | some (.obj o) => some o
  | _ => none

end World

/-- how a call ended: "ok" or the class of the exception -/
def outcome {α : Type} : Except PyExc α → String
  | .ok _ => "ok"
  | .error e => e

/-! ### the circuit -/

/-- what `Circuit.__init__` stores, in its order -/
def freshCircuitAttrs (c : Nat) : List (String × Attr) :=
  [("_blocks", .dict []), ("_simtask", .arg .none), ("_finalized", .arg (.val (.bool false))),
   ("_error", .arg .none), ("persistent_dict", .arg .none), ("persistent_ts", .arg .none),
   ("_resolver", .ext (.resolver c)), ("resolve_name", .ext (.register c)), ("debug", .arg (.val (.bool false)))]

/-- `Circuit()` -/
def newCircuit (w : World) : World × Nat :=
  (w.alloc { cls := "Circuit", bases := ["Circuit"], attrs := freshCircuitAttrs w.heap.length })

/-- `simulator.get_circuit()`: the current circuit; one is created when there is none -/
def getCircuit (w : World) : World × Nat :=
  match w.current with
  | some c => (w, c)
  | none => ({ (newCircuit w).1 with current := some (newCircuit w).2 }, (newCircuit w).2)

/-- `Circuit.is_ready()` read off the attributes -/
def isReady (w : World) (c : Nat) : Bool := !w.attrIsNone c "_simtask" && w.attrIsNone c "_error"

/-- `Circuit.abort(exc)` as far as the registry is concerned: the first error is recorded; cancelling the
    task may raise when the event loop is gone -/
def abort (w : World) (c : Nat) (cls : String) : World × Except PyExc Unit :=
  let w1 := if w.attrIsNone c "_error" then w.setAttr c "_error" (.ext (.exc cls)) else w
  (w1, if w.abortRaises then .error "RuntimeError" else .ok ())

/-- `simulator.reset_circuit()`: nothing without a circuit; else the old one is aborted (an ordinary
    exception of `abort` is only logged) and a NEW circuit becomes the current one -/
def resetCircuit (w : World) : World :=
  match w.current with
  | none => w
  | some c =>
    let w1 := (abort w c "EdzedCircuitError").1
    { (newCircuit w1).1 with current := some (newCircuit w1).2 }

/-- `circuit._simtask` -/
def simtask (w : World) (c : Nat) : Option Nat :=
  match w.get? c "_simtask" with
  | some (.ext (.task n)) => some n
  | _ => none

/-- `Circuit.is_current_task()` -/
def isCurrentTask (w : World) (c : Nat) : Bool :=
  match simtask w c with
  | none => false
  | some t =>
    match w.curTask with
    | none => false             -- no running event loop
    | some cur => cur == some t

/-- `Circuit.findblock(name)` -/
def findblock (w : World) (c : Nat) (n : String) : Option Nat := kwGet? (w.blocks c) n

/-- `Circuit.getblocks(cls)`: in the order of the registration -/
def blocksOfType (w : World) (c : Nat) (cls : String) : List Nat :=
  ((w.blocks c).map (·.2)).filter fun b => w.isInstance b cls

/-- `Circuit.addblock(blk)` -/
def addblock (w : World) (c b : Nat) : World × Except PyExc Unit :=
  if !w.attrIsNone c "_error" then (w, .error "EdzedInvalidState")
  else if w.attrTruthy c "_finalized" then (w, .error "EdzedInvalidState")
  else if !w.isInstance b "Block" then (w, .error "TypeError")
  else if (kwGet? (w.blocks c) (w.nameOf b)).isSome then (w, .error "ValueError")
  else (w.setAttr c "_blocks" (.dict (w.blocks c ++ [(w.nameOf b, b)])), .ok ())

/-- `self.circuit.getblocks(type(self))` -/
def selfTypeBlocks (w : World) (self : Nat) : List Nat :=
  match w.circuitOf self with
  | some c => blocksOfType w c (w.className self)
  | none => []

/-- `self.circuit.addblock(self)` -/
def addSelf (w : World) (self : Nat) : World × Except PyExc Unit :=
  match w.circuitOf self with
  | none => (w, .error "AttributeError")
  | some c => addblock w c self

/-! ### names -/

/-- `check_name(name, …)`: a non-empty str -/
def checkName (name : Arg Nat) : Except PyExc String :=
  match name.str? with
  | none => .error "TypeError"
  | some s => if s == "" then .error "ValueError" else .ok s

/-- the automatic name: `_<class>_<n>`, `n` = how many blocks of that class (or a subclass) already have a
    name with that prefix -/
def autoName (cls : String) (names : List String) : String :=
  ("_" ++ cls ++ "_") ++ pyStrNat (names.countP fun n => strStartsWith n ("_" ++ cls ++ "_"))

/-- the name rules of `Block.__init__`: what is stored as `self.name` -/
def blockName (name reserved : Arg Nat) (cls : String) (sameType : List String) : Except PyExc (Arg Nat) :=
  if name.isNone then .ok (.val (.str (autoName cls sameType)))
  else
    match checkName name with
    | .error e => .error e
    | .ok s => if strStartsWith s "_" && !reserved.truthy then .error "ValueError" else .ok name

/-! ### blocks -/

/-- `event_tuple(arg)`: None, an object with a `send` attribute, an empty sequence; anything else
    (that the model can express) is refused -/
def eventsOk (w : World) : Arg Nat → Bool
  | .val (.atom .none) => true
  | .val (.tup []) => true
  | .val (.lst []) => true
  | .val _ => false
  | .obj o => ((w.obj o).members.any (·.1 == "send")) || ((w.obj o).attrs.any (·.1 == "send"))

def eventTuple (w : World) (a : Arg Nat) : Except PyExc XV :=
  if eventsOk w a then .ok (.events a) else .error "TypeError"

/-- a keyword `Block.__init__` accepts as an extra attribute -/
def goodKey' (k : String) : Bool := strStartsWith k "x_" || strStartsWith k "X_"

/-- the loop over `**x_kwargs`: attributes are stored until the first refused keyword -/
def storeX (w : World) (self : Nat) : Kw (Arg Nat) → World × Except PyExc Unit
  | [] => (w, .ok ())
  | (k, v) :: r =>
    if strStartsWith k "x_" || strStartsWith k "X_" then storeX (w.setAttr self k (.arg v)) self r
    else (w, .error "TypeError")

/-- `Block.__init__` from `self.name = name` on: the two-kinds test, the `x_…` keywords, the other attributes,
    the registration -/
def blockTail (w : World) (self : Nat) (name comment onOutput debug : Arg Nat) (xkw : Kw (Arg Nat)) :
    World × Except PyExc Unit :=
  let w := w.setAttr self "name" (.arg name)
  if !w.isInstance self "SBlock" && !w.isInstance self "CBlock" then (w, .error "TypeError")
  else if w.isInstance self "SBlock" && w.isInstance self "CBlock" then (w, .error "TypeError")
  else
    match storeX w self xkw with
    | (w, .error e) => (w, .error e)
    | (w, .ok ()) =>
      let w := (w.setAttr self "comment" (.arg comment)).setAttr self "debug" (.bool debug.truthy)
      match eventTuple w onOutput with
      | .error e => (w, .error e)
      | .ok ev =>
        addSelf (((w.setAttr self "_output_events" (.ext ev)).setAttr self "oconnections" (.set [])).setAttr
          self "_output" (.arg .undef)) self

/-- `Block.__init__(self, name, *, comment, on_output, _reserved, debug, **x_kwargs)` -/
def blockInit (w : World) (self : Nat) (name comment onOutput reserved debug : Arg Nat) (xkw : Kw (Arg Nat)) :
    World × Except PyExc Unit :=
  let w := (getCircuit w).1.setAttr self "circuit" (.optobj (some (getCircuit w).2))
  match blockName name reserved (w.className self) ((selfTypeBlocks w self).map w.nameOf) with
  | .error e => (w, .error e)
  | .ok nm => blockTail w self nm comment onOutput debug xkw

/-- `Block(*args, **kwargs)`: one positional-or-keyword `name`; the keyword-only parameters with their
    defaults; every other keyword goes to `**x_kwargs` -/
def blockInitCall (w : World) (self : Nat) (args : List (Arg Nat)) (kw : Kw (Arg Nat)) : World × Except PyExc Unit :=
  match bindArgs ["name"] ["comment", "on_output", "_reserved", "debug"] false true args kw with
  | some ([some name, comment, onOutput, reserved, debug], _, rest) =>
    blockInit w self name (comment.getD (.val (.str ""))) (onOutput.getD .none) (reserved.getD (.val (.bool false)))
      (debug.getD (.val (.bool false))) rest
  | _ => (w, .error "TypeError")

/-- `getattr(obj, name)`: the instance attributes (none of which is callable in the model), then the class -/
def lookup (w : World) (o : Nat) (name : String) : Option Member :=
  if ((w.obj o).get? name).isSome then some .data else kwGet? (w.obj o).members name

/-- `Block.has_method(name)`: defined, not one of the two placeholders, callable; an AttributeError of the lookup
    means "not defined", any other exception of the lookup propagates -/
def hasMethod (w : World) (o : Nat) (name : String) : Except PyExc Bool :=
  match lookup w o name with
  | some .method => .ok true
  | some .propRuntimeError => .error "RuntimeError"
  | _ => .ok false

/-- `SBlock.__init__(self, *args, on_every_output, **kwargs)` -/
def sblockInit (w : World) (self : Nat) (args : List (Arg Nat)) (onEvery : Arg Nat) (kw : Kw (Arg Nat)) :
    World × Except PyExc Unit :=
  match hasMethod w self "init_from_value" with
  | .error e => (w, .error e)
  | .ok has =>
    let w := if has then w.setAttr self "initdef" (.arg (kwPopD kw "initdef" .undef)) else w
    let kw := if has then kwErase kw "initdef" else kw
    let w := w.setAttr self "_event_active" (.arg (.val (.bool false)))
    match eventTuple w onEvery with
    | .error e => (w, .error e)
    | .ok ev =>
      blockInitCall ((w.setAttr self "_every_output_events" (.ext ev)).setAttr self "init_steps_completed"
        (.arg (.val (.int 0)))) self args kw

def sblockInitCall (w : World) (self : Nat) (args : List (Arg Nat)) (kw : Kw (Arg Nat)) : World × Except PyExc Unit :=
  match bindArgs [] ["on_every_output"] true true args kw with
  | some ([onEvery], extra, rest) => sblockInit w self extra (onEvery.getD .none) rest
  | _ => (w, .error "TypeError")

/-- `CBlock.__init__(self, *args, **kwargs)` -/
def cblockInit (w : World) (self : Nat) (args : List (Arg Nat)) (kw : Kw (Arg Nat)) : World × Except PyExc Unit :=
  blockInitCall (((w.setAttr self "iconnections" (.set [])).setAttr self "inputs" (.dict [])).setAttr self "_in"
    (.ext (.inputGetter self))) self args kw

def cblockInitCall (w : World) (self : Nat) (args : List (Arg Nat)) (kw : Kw (Arg Nat)) : World × Except PyExc Unit :=
  match bindArgs [] [] true true args kw with
  | some ([], extra, rest) => cblockInit w self extra rest
  | _ => (w, .error "TypeError")

/-! ### external events -/

/-- `source if source.startswith("_ext_") else "_ext_" + source` -/
def extSource (s : String) : String := if strStartsWith s "_ext_" then s else "_ext_" ++ s

/-- the destination of `ExtEvent.__init__`: a name is looked up in the current circuit (KeyError), a block
    object is taken as it is, anything else is refused -/
def extDest (w : World) (dest : Arg Nat) : World × Except PyExc (Arg Nat) :=
  match dest.str? with
  | some n =>
    match findblock (getCircuit w).1 (getCircuit w).2 n with
    | none => ((getCircuit w).1, .error "KeyError")
    | some b => ((getCircuit w).1, .ok (.obj b))
  | none =>
    match dest with
    | .obj o => if w.isInstance o "Block" then (w, .ok dest) else (w, .error "TypeError")
    | .val _ => (w, .error "TypeError")

def isSBlock (w : World) : Arg Nat → Bool
  | .obj o => w.isInstance o "SBlock"
  | .val _ => false

/-- `ExtEvent.__init__(self, dest, etype, source)` -/
def extInit (w : World) (self : Nat) (dest etype source : Arg Nat) : World × Except PyExc Unit :=
  match extDest w dest with
  | (w, .error e) => (w, .error e)
  | (w, .ok d) =>
    if !isSBlock w d then (w, .error "TypeError")
    else
      match etype.str? with
      | none => (w, .error "TypeError")
      | some e =>
        if e == "" then (w, .error "TypeError")
        else
          match source.str? with
          | none => (w, .error "TypeError")
          | some s =>
            (((w.setAttr self "_dest" (.arg d)).setAttr self "_etype" (.arg etype)).setAttr self "_source"
              (.str (extSource s)), .ok ())

/-- `ExtEvent(dest, etype='put', source='_ext_')` -/
def extInitCall (w : World) (self : Nat) (args : List (Arg Nat)) (kw : Kw (Arg Nat)) : World × Except PyExc Unit :=
  match bindArgs ["dest", "etype", "source"] [] false false args kw with
  | some ([some dest, etype, source], _, _) =>
    extInit w self dest (etype.getD (.val (.str "put"))) (source.getD (.val (.str "_ext_")))
  | _ => (w, .error "TypeError")

/-! ### Const -/

/-- keys of a dict: equal values (`1 == True == 1.0`), identical objects -/
def keyEq : Arg Nat → Arg Nat → Bool
  | .val a, .val b => a.pyEq b
  | .obj a, .obj b => a == b
  | _, _ => false

def hashable : Arg Nat → Bool
  | .val v => v.hashable
  | .obj _ => true

/-- `Const(value)`: one instance per (hashable) value; UNDEF is refused -- AFTER the instance was
    created and registered -/
def constCall (w : World) (cls : String) (v : Arg Nat) : World × Except PyExc Nat :=
  let found := if hashable v then (w.consts.find? fun p => keyEq p.1 v).map (·.2) else none
  let o := found.getD w.heap.length
  let w := match found with
    | some _ => w
    | none =>
      let w1 := (w.alloc { cls := cls, bases := [cls, "Const"] }).1
      if hashable v then { w1 with consts := w1.consts ++ [(v, w.heap.length)] } else w1
  if v.isUndef then (w, .error "ValueError")
  else (w.setAttr o "_output" (.arg v), .ok o)

end Edzed.BlkCtor
