/-
Model of the timers of `edzed.FSM` (edzed/fsm.py: `_ctx_event`, `_start_timer`, `_set_timer`,
`_stop_timer`, `_timer_expired`, `get_state`, `stop`, `_restore_state`) together with the part of the event loop
they use (`call_later` handles of this FSM, their cancellation and expiry).

Self-contained table-driven FSM core: states, transition table with specific and any-state
rules, timed events (named event or `Goto`), conditions, entry actions that may send one event to
the FSM itself, chained transitions (entry action / zero duration), chain limit.

Time is the loop clock in integer microseconds.  The loop's scheduled handles of the FSM are a
LIST `timers` (id, when, event, cancelled); `_active_timer` is `active : Option id`.
`setTimer` appends a handle and overwrites `active` without looking at the old one,
`stopTimer` cancels only the active one -- exactly what the code does -- so "at most one pending
timer" is a theorem (EdzedProps/C04.lean), not a property of the representation.

The model mirrors the code WITH the two minimal repairs of patches/C04-*.diff:
  * `_timer_expired` clears `_active_timer` before it delivers the timed event (defect 8:
    `get_state()` reported the fired timer's past time stamp after a rejected timed event);
  * `stop()` disables `_set_timer` (defect 7: an event delivered during the clean-up after
    `FSM.stop()` armed a timer that outlived the simulation).

`restore` mirrors `_restore_state` as repaired by the upstream fix "restore: start the timer only when the
state was really restored": the timer of a restored timed state is started after `calc_output()` has
delivered an output; when `calc_output()` raises or returns UNDEF the block stays uninitialised and owns no
timer (before the fix the timer was started first and was orphaned by the initialisation that followed;
EdzedProofs/FsmTimer.lean keeps that order as `restoreOld`, EdzedProps/C04.lean shows what goes wrong).

Ghost data used by the theorems only: `epoch` (number of state entries so far = the current
"visit"), stamped on every handle when it is armed and on every `fire` log entry.
-/
import EdzedModel.Basic.Val
import EdzedModel.Gen.Constants

namespace Edzed.FsmTimer

abbrev TEvent := Edzed.Gen.TEvent

/-- a duration as given to the FSM: `None`, `INF_TIME`, a number (µs, may be negative),
    or something `time_period` refuses -/
inductive Dur where
  | none | inf | us (d : Int) | bad
  deriving DecidableEq, Repr, Inhabited

def Dur.ofGen : Edzed.Gen.Dur → Dur
  | .none => .none
  | .inf => .inf
  | .us n => .us n

inductive ErrKind where
  | circuitError      -- EdzedCircuitError: no duration, chain limit, two events
  | valueError        -- unknown Goto state, unparsable duration
  | keyError          -- InputExp: `put` without `value`
  | unknownEvent      -- EdzedUnknownEvent escaping from an entry action
  | assertion         -- non-Goto event for an uninitialised FSM
  | invalidState      -- EdzedInvalidState: get_state() of an uninitialised FSM
  | typeError         -- TypeError: refused keyword arguments of a constructor, None / 2
  | fuel              -- model only: `advance` ran out of fuel (never for reachable states)
  deriving DecidableEq, Repr, Inhabited

structure Table where
  states : List String
  events : List String
  /-- (event, from-state or any, target or none) -/
  trans : List (String × Option String × Option String)
  /-- timed state ↦ (timed event, class default duration) -/
  timed : List (String × TEvent × Dur)
  chainLimit : Nat
  deriving Repr, Inhabited

/-- scripts for `cond_EVENT` -/
inductive Cond where
  | const (b : Bool)
  | gate                      -- reads a flag that the environment may change (`cond_E=lambda: enable.output`)
  | stateNe (q : String)      -- Timer: `self._restartable or self._state != q` with restartable = False
  | store                     -- InputExp.cond_put: `sdata['input'] = data['value']`, accept
  deriving DecidableEq, Repr, Inhabited

inductive OutFn where
  | state                     -- FSM.calc_output
  | isState (q : String)      -- Timer.calc_output
  | inputExp (expired : Val)  -- InputExp.calc_output
  deriving Repr, Inhabited

structure EvData where
  dur : Dur := .none          -- the 'duration' item
  value : Option Val := none  -- the 'value' item
  deriving DecidableEq, Repr, Inhabited

structure Cfg where
  tbl : Table
  /-- `t_STATE` keyword arguments of the instance -/
  tDur : List (String × Dur) := []
  /-- `cond_EVENT` functions/methods; all entries of an event are evaluated -/
  conds : List (String × Cond) := []
  /-- entry action of a state: send this event (with this 'duration' item) to the FSM itself -/
  enterSend : List (String × TEvent × Dur) := []
  outFn : OutFn := .state
  initState : String
  initInput : Option Val := none
  deriving Repr, Inhabited

structure Handle where
  id : Nat
  when : Nat
  ev : TEvent
  epoch : Nat
  cancelled : Bool := false
  deriving DecidableEq, Repr, Inhabited

inductive Entry where
  | exit (q : String) (d : EvData)     -- exit action; `d`: what it reads through `fsm_event_data`
  | onExit (q : String)
  | cancel (id : Nat)
  | enter (q : String) (d : EvData)    -- entry action; `d`: what it reads through `fsm_event_data`
  | arm (h : Handle)
  | out (v : Val)
  | onEnter (q : String)
  | notrans (e q : String)
  | fire (h : Handle) (epoch : Nat) (state : Option String)
  deriving DecidableEq, Repr, Inhabited

structure St where
  now : Nat := 0
  state : Option String := none
  out : Val := .undef
  input : Option Val := none
  gate : Bool := true
  active : Option Nat := none
  timers : List Handle := []
  nextId : Nat := 0
  epoch : Nat := 0
  next : Option (TEvent × EvData × String) := none
  stopped : Bool := false
  /-- `self.persistent` as far as `FSM.stop()` is concerned: switched off by the stop (the state without its timer
      must not replace what the simulator saved before it stopped the blocks) -/
  persistOn : Bool := true
  failed : Option ErrKind := none
  /-- the value of the context variable `fsm_event_data` in the running context -/
  ctx : EvData := {}
  log : List (Nat × Entry) := []
  deriving DecidableEq, Repr, Inhabited

inductive Res where
  | ret (accepted : Bool)
  | unknown
  | err (k : ErrKind)
  | aborted                   -- the simulation was aborted before; nothing is delivered
  deriving DecidableEq, Repr, Inhabited

def St.emit (s : St) (e : Entry) : St := { s with log := s.log ++ [(s.now, e)] }

def St.fail (s : St) (k : ErrKind) : St :=
  match s.failed with
  | some _ => s
  | none => { s with failed := some k }

/-- `self._state = q`: a new visit begins -/
def St.enter (s : St) (q : String) : St := { s with state := some q, epoch := s.epoch + 1 }

/-- `self.sdata = …` (the part of `sdata` the model knows: the stored input value) -/
def St.setInput (s : St) (v : Option Val) : St := { s with input := v }

/-- `self._next_event = …` -/
def St.setNextEv (s : St) (x : Option (TEvent × EvData × String)) : St := { s with next := x }

/-- the loop's pending (non-cancelled) handles of this FSM -/
def live (s : St) : List Handle := s.timers.filter (fun h => !h.cancelled)

/-! ### timers -/

/-- the handle with this id, if it is in the loop's heap and was not cancelled -/
def liveHandle (s : St) (id : Nat) : Option Handle :=
  s.timers.find? (fun h => h.id == id && !h.cancelled)

/-- `not timer.cancelled()` as far as this FSM can tell (a handle that has left the heap counts as gone) -/
def handleLive (s : St) (id : Nat) : Bool := (liveHandle s id).isSome

/-- `_stop_timer`: cancel the active handle (only that one) and forget it -/
def stopTimer (s : St) : St :=
  match s.active with
  | none => s
  | some id =>
    let hit := handleLive s id
    let s' : St := { s with
      active := none
      timers := s.timers.map (fun h => if h.id == id then { h with cancelled := true } else h) }
    if hit then s'.emit (.cancel id) else s'

/-- `_set_timer`: `call_later`; the previous value of `_active_timer` is simply overwritten.
    After `stop()` it does nothing (repair of defect 7). -/
def setTimer (s : St) (d : Nat) (ev : TEvent) : St :=
  if s.stopped then s
  else
    let h : Handle := { id := s.nextId, when := s.now + d, ev := ev, epoch := s.epoch }
    ({ s with timers := s.timers ++ [h], active := some h.id, nextId := s.nextId + 1 }).emit (.arm h)

/-! ### durations -/

def Table.timedOf (t : Table) (q : String) : Option (TEvent × Dur) := t.timed.lookup q

/-- `time_period` on a number: negative values are replaced by 0 -/
def clamp : Dur → Dur
  | .us d => .us (if d < 0 then 0 else d)
  | d => d

/-- `self._duration[state]`: the class default overridden by a `t_STATE` that is not None -/
def Cfg.instDur (c : Cfg) (q : String) : Dur :=
  let dflt : Dur := match c.tbl.timedOf q with
    | some (_, d) => d
    | none => .none
  match c.tDur.lookup q with
  | some .none => dflt
  | some d => d
  | none => dflt

/-- effective duration: the event's 'duration' item > instance `t_STATE` > class default;
    `none` = no duration at all -/
def effDur (c : Cfg) (q : String) (item : Dur) : Dur :=
  match item with
  | .none => clamp (c.instDur q)
  | d => clamp d

/-! ### table lookup, conditions -/

/-- the dictionary `_ct_transition` at the key `(event, state-or-None)`: `none` = no such key,
    `some none` = the stored target is None -/
def Table.lookupKey (t : Table) (e : String) (q : Option String) : Option (Option String) :=
  (t.trans.find? (fun r => r.1 == e && r.2.1 == q)).map (·.2.2)

/-- the rule for the current state, else the any-state rule; a stored `None` target of the
    specific rule does NOT fall through to the any-state rule -/
def Table.lookup (t : Table) (e q : String) : Option String :=
  match t.lookupKey e (some q) with
  | some v => v
  | none => (t.lookupKey e none).getD none

def Cfg.condsOf (c : Cfg) (e : String) : List Cond :=
  (c.conds.filter (fun p => p.1 == e)).map (·.2)

/-- one condition; `none` = it raised -/
def evalCond (s : St) (d : EvData) : Cond → Option (St × Bool)
  | .const b => some (s, b)
  | .gate => some (s, s.gate)
  | .stateNe q => some (s, s.state != some q)
  | .store =>
    match d.value with
    | some v => some ({ s with input := some v }, true)
    | none => none

/-- `all(self._run_cb('cond', etype))`: every condition is evaluated, then the conjunction -/
def evalConds (s : St) (d : EvData) : List Cond → Option (St × Bool)
  | [] => some (s, true)
  | c :: cs =>
    match evalCond s d c with
    | none => none
    | some (s1, b) =>
      match evalConds s1 d cs with
      | none => none
      | some (s2, b') => some (s2, b && b')

inductive Resolved where
  | target (q : String)
  | reject
  | unknown
  | error (k : ErrKind)
  deriving Repr, Inhabited

/-- first part of `_ctx_event`: validity, lookup, `notrans`, conditions (only when initialised,
    never for Goto) -/
def resolve (c : Cfg) (s : St) (e : TEvent) (d : EvData) : St × Resolved :=
  match e with
  | .goto q => if c.tbl.states.contains q then (s, .target q) else (s, .error .valueError)
  | .ev name =>
    if !c.tbl.events.contains name then (s, .unknown)
    else match s.state with
      | none => (s, .error .assertion)
      | some cur =>
        match c.tbl.lookup name cur with
        | none => (s.emit (.notrans name cur), .reject)
        | some q =>
          if s.out.isUndef then (s, .target q)
          else match evalConds s d (c.condsOf name) with
            | none => (s, .error .keyError)
            | some (s', ok) => if ok then (s', .target q) else (s', .reject)

/-- `fsm_event_data.set(…)` -/
def setCtx (s : St) (d : EvData) : St := { s with ctx := d }

/-- `_ctx_event` called recursively while a transition is running (`_fsm_event_active`): the
    accepted event is stored in `_next_event`; a second one is an error. Returns "accepted". -/
def post (c : Cfg) (s : St) (e : TEvent) (d : EvData) : St × Bool :=
  match resolve c (setCtx s d) e d with
  | (s1, .target q) =>
    match s1.next with
    | some _ => (s1.fail .circuitError, false)
    | none => (s1.setNextEv (some (e, d, q)), true)
  | (s1, .reject) => (s1, false)
  | (s1, .unknown) => (s1.fail .unknownEvent, false)
  | (s1, .error k) => (s1.fail k, false)

/-- `_event` = `contextvars.copy_context().run(self._ctx_event, …)` for the recursive call: what
    `_ctx_event` does to `fsm_event_data` stays in the copy of the context -/
def eventRec (c : Cfg) (s : St) (e : TEvent) (d : EvData) : St × Bool :=
  ({ (post c s e d).1 with ctx := s.ctx }, (post c s e d).2)

/-- `_run_cb('enter', state)` -/
def runEnter (c : Cfg) (s : St) (q : String) : St :=
  let s1 := s.emit (.enter q s.ctx)
  match c.enterSend.lookup q with
  | none => s1
  | some (e, dur) => (eventRec c s1 e { dur := dur }).1

/-- `_start_timer(data.get('duration'), timed_event)` in state `q` -/
def startTimer (c : Cfg) (s : St) (q : String) (tev : TEvent) (item : Dur) : St :=
  match effDur c q item with
  | .none => s.fail .circuitError
  | .bad => s.fail .valueError
  | .inf => s
  | .us d =>
    if d ≤ 0 then (eventRec c s tev {}).1
    else setTimer s d.toNat tev

def calcOutput (c : Cfg) (s : St) : Option Val :=
  match c.outFn, s.state with
  | _, none => some .undef
  | .state, some q => some (.str q)
  | .isState q', some q => some (.bool (q == q'))
  | .inputExp expired, some q => if q == "valid" then s.input else some expired

/-- `set_output`: nothing happens when the value compares equal to the current output -/
def setOut (s : St) (v : Val) : St :=
  if v.isUndef || s.out.pyEq v then s else ({ s with out := v }).emit (.out v)

def sendOnEnter (s : St) : St :=
  match s.state with
  | some q => s.emit (.onEnter q)
  | none => s

/-- end of an executed transition: output (`calc_output` returning UNDEF leaves it unchanged),
    then the `on_enter` events -/
def finish (c : Cfg) (s : St) : St :=
  match calcOutput c s with
  | none => s.fail .keyError
  | some v => sendOnEnter (setOut s v)

/-- `_run_cb('exit', self._state)` -/
def exitCur (s : St) : St :=
  match s.state with
  | some p => s.emit (.exit p s.ctx)
  | none => s

/-- beginning of a round of the loop: a pending chained event is unpacked, `fsm_event_data` is
    switched to its data and the exit action of the intermediate state runs -/
def popNext (s : St) (d : EvData) (q : String) : St × EvData × String :=
  match s.next with
  | some (_, d', q') => (exitCur (setCtx (s.setNextEv none) d'), d', q')
  | none => (s, d, q)

/-- the rest of a round: the state is entered, its entry action runs and, unless the entry action
    has posted an event, the timer of a timed state is started -/
def enterState (c : Cfg) (s : St) (d : EvData) (q : String) : St :=
  let s1 := runEnter c (s.enter q) q
  if s1.failed.isSome || s1.next.isSome then s1
  else match c.tbl.timedOf q with
    | none => s1
    | some (tev, _) => startTimer c s1 q tev d.dur

/-- the `for _ in range(chainlimit)` loop of `_ctx_event` with its `else:` and what follows the
    loop; `q` is the state to enter with the data `d` of the event that leads there -/
def enterLoop (c : Cfg) : Nat → St → EvData → String → St
  | 0, s, _, _ => s.fail .circuitError
  | fuel + 1, s, d, q =>
    let r := popNext s d q
    let s2 := enterState c r.1 r.2.1 r.2.2
    if s2.failed.isSome then s2
    else if s2.next.isSome then enterLoop c fuel s2 r.2.1 r.2.2
    else finish c s2

/-- exit part of an executed transition (only when initialised): exit action, `on_exit`
    events, `_stop_timer` -/
def leave (s : St) : St :=
  if s.out.isUndef then s
  else match s.state with
    | some cur => stopTimer ((s.emit (.exit cur s.ctx)).emit (.onExit cur))
    | none => s

/-- `FSM._ctx_event` for an event arriving from outside or from the timer
    (`_fsm_event_active` is false, `_next_event` is None) -/
def ctxEvent (c : Cfg) (s : St) (e : TEvent) (d : EvData) : St × Res :=
  match resolve c (setCtx s d) e d with
  | (s1, .unknown) => (s1, .unknown)
  | (s1, .error k) => (s1.fail k, .err k)
  | (s1, .reject) => (s1, .ret false)
  | (s1, .target q) =>
    let s2 := enterLoop c c.tbl.chainLimit (leave s1) d q
    match s2.failed with
    | some k => (s2, .err k)
    | none => (s2, .ret true)

/-- `SBlock.event` → `_event` → `_ctx_event`; an executed transition that leaves the output UNDEF
    means that the block could not be initialised: the simulator gives up (`init_sblock`:
    "not initialized") -/
def deliver (c : Cfg) (s : St) (e : TEvent) (d : EvData) : St × Res :=
  match ctxEvent c s e d with
  | (s2, .ret true) => if s2.out.isUndef then (s2.fail .circuitError, .err .circuitError) else (s2, .ret true)
  | r => r

/-! ### the clock -/

/-- expiry of a handle: the clock has reached `when`, the handle leaves the loop's heap and
    `_timer_expired` forgets the active timer (repair of defect 8) -/
def popTimer (s : St) (h : Handle) : St :=
  { now := if s.now < h.when then h.when else s.now
    state := s.state, out := s.out, input := s.input, gate := s.gate
    active := none
    timers := s.timers.filter (fun x => x.id != h.id)
    nextId := s.nextId, epoch := s.epoch, next := s.next, stopped := s.stopped, persistOn := s.persistOn, failed := s.failed
    ctx := s.ctx
    log := s.log ++ [(if s.now < h.when then h.when else s.now, .fire h s.epoch s.state)] }

/-- … and `_timer_expired` delivers the timed event without data -/
def fire (c : Cfg) (s : St) (h : Handle) : St :=
  (deliver c (popTimer s h) h.ev {}).1

def isDue (t : Nat) (strict : Bool) (h : Handle) : Bool :=
  if strict then h.when < t else h.when ≤ t

/-- the earliest pending handle that is due (ties: the one armed first) -/
def earliest : List Handle → Option Handle
  | [] => none
  | h :: hs =>
    match earliest hs with
    | none => some h
    | some b => if b.when < h.when then some b else some h

def nextDue (s : St) (t : Nat) (strict : Bool) : Option Handle :=
  earliest ((live s).filter (isDue t strict))

def advanceAux (c : Cfg) : Nat → St → Nat → Bool → St
  | 0, s, _, _ => s.fail .fuel
  | fuel + 1, s, t, strict =>
    if s.failed.isSome then s
    else match nextDue s t strict with
      | none => { s with now := if s.now < t then t else s.now }
      | some h => advanceAux c fuel (fire c s h) t strict

/-- let the clock run to `t`: the timers due at or before `t` (`strict`: before `t`) fire in
    order, each at its own time -/
def advance (c : Cfg) (s : St) (t : Nat) (strict : Bool) : St :=
  advanceAux c ((t - s.now) + s.timers.length + 2) s t strict

/-! ### operations -/

inductive Placement where
  | before      -- B: the clock is at `t`, the timers due at `t` have not run yet
  | after       -- A: the timers due at `t` have run
  deriving DecidableEq, Repr, Inhabited

/-- what `calc_output()` does when `_restore_state` calls it: the regular output function of the block, an
    exception (an application-defined `calc_output` may fail on a restored state), or UNDEF ("leave the output
    unchanged") -/
inductive CalcMode where
  | normal | raises | undef
  deriving DecidableEq, Repr, Inhabited

inductive Op where
  | init
  | ev (t : Nat) (pl : Placement) (e : TEvent) (d : EvData)
  | advance (t : Nat)
  | gate (b : Bool)
  | stop
  /-- `init_from_persistent_data` → `_restore_state((q, exp, sdata))`; `exp` on the model's clock -/
  | restore (q : String) (exp : Option Nat) (sd : Option Val) (m : CalcMode)
  deriving Repr, Inhabited

/-- `FSM.stop()` -/
def stop (s : St) : St := { stopTimer s with stopped := true, persistOn := false }

/-- initialisation by `init_from_value(initdef)` = `Goto(initdef)` -/
def initOp (c : Cfg) (s : St) : St × Res :=
  deliver c { s with input := c.initInput } (.goto c.initState) {}

/-- `self.calc_output()` as called by `_restore_state`; `none` = it raises -/
def calcFor (c : Cfg) (s : St) : CalcMode → Option Val
  | .normal => calcOutput c s
  | .raises => none
  | .undef => some .undef

/-- the end of `_restore_state`, after `self._state = state; self.sdata = sdata`: the timer is started only when
    `calc_output()` has delivered an output, i.e. when the state is really restored (`arm` = `timer_args`).  When
    `calc_output()` raises or returns UNDEF the block stays uninitialised -- it will be initialised by other means,
    and `_ctx_event` does not stop timers of a block that is not initialised -- and must not own a timer. -/
def restoreTail (c : Cfg) (s : St) (arm : Option (Nat × TEvent)) (m : CalcMode) : St × Res :=
  match calcFor c s m with
  | none => (s, .err .keyError)
  | some v =>
    if v.isUndef then (s, .ret true)
    else
      let s2 := match arm with
        | some (d, ev) => setTimer s d ev
        | none => s
      (setOut s2 v, .ret true)

/-- `FSM._restore_state((q, exp, sdata))` (compatibility with 2-tuples aside).  An error is returned, not recorded in
    `failed`: `init_from_persistent_data` logs and suppresses it, the block is then initialised by other means. -/
def restore (c : Cfg) (s : St) (q : String) (exp : Option Nat) (sd : Option Val) (m : CalcMode) : St × Res :=
  if !c.tbl.states.contains q then (s, .err .valueError)
  else match exp with
    | none => restoreTail c ((s.enter q).setInput sd) none m
    | some t =>
      if t ≤ s.now then (s, .ret true)         -- "ignoring expired state"
      else match c.tbl.timedOf q with
        | none => (s, .err .circuitError)      -- "cannot set a timer for a not timed state"
        | some (ev, _) => restoreTail c ((s.enter q).setInput sd) (some (t - s.now, ev)) m

def step (c : Cfg) (s : St) : Op → St × Res
  | .stop => (stop s, .ret true)
  | .restore q exp sd m =>
    -- the simulator restores a block only while it is not initialised (`init_sblock`)
    if s.failed.isSome || !s.out.isUndef then (s, .aborted) else restore c s q exp sd m
  | .advance t =>
    if s.failed.isSome then ({ s with now := if s.now < t then t else s.now }, .aborted)
    else (advance c s t false, .ret true)
  | .gate b => ({ s with gate := b }, .ret true)
  | .init => if s.failed.isSome then (s, .aborted) else initOp c s
  | .ev t pl e d =>
    if s.failed.isSome then (s, .aborted)
    else
      let s1 := advance c s t (pl == .before)
      if s1.failed.isSome then (s1, .aborted) else deliver c s1 e d

def run (c : Cfg) (s : St) (ops : List Op) : St :=
  ops.foldl (fun s op => (step c s op).1) s

/-- `get_state()`: (state, expiration time of the timer) ; `none` = EdzedInvalidState -/
def getState (s : St) : Option (String × Option Nat) :=
  match s.state with
  | none => none
  | some q =>
    let timer : Option Nat :=
      match s.active with
      | none => none
      | some id => (liveHandle s id).map (·.when)
    some (q, timer)

/-! ### the library blocks, over the tables generated from the source -/

def timerTable : Table :=
  { states := Gen.timerStates, events := Gen.timerEvents, trans := Gen.timerTrans
    timed := Gen.timerTimed.map (fun (q, e, d) => (q, e, Dur.ofGen d))
    chainLimit := Gen.timerChainLimit }

/-- `Timer(t_on=…, t_off=…, restartable=…)`; `t_period=p` is `t_on = t_off = p/2` -/
def timerCfg (tOn tOff : Dur) (restartable : Bool) (initState : String := Gen.timerDefault) : Cfg :=
  { tbl := timerTable
    tDur := [("on", tOn), ("off", tOff)]
    conds := if restartable then [] else [("start", .stateNe "on"), ("stop", .stateNe "off")]
    outFn := .isState "on"
    initState := initState }

/-- the keyword arguments of `Timer(…)` that concern durations; `none` = not given, `some .none` = given
    as None -/
structure TimerKw where
  tPeriod : Option Dur := none
  tOn : Option Dur := none
  tOff : Option Dur := none
  deriving DecidableEq, Repr, Inhabited

/-- `utils.time_period` on a duration value -/
def timePeriodDur : Dur → Except ErrKind Dur
  | .bad => .error .valueError
  | d => .ok (clamp d)

/-- `period / 2` (durations are even numbers of µs; None / 2 raises) -/
def halfDur : Dur → Except ErrKind Dur
  | .us n => .ok (.us (n / 2))
  | .inf => .ok .inf
  | _ => .error .typeError

/-- `Timer.__init__`, the rewriting of the keyword arguments: `t_period` excludes `t_on` / `t_off` and
    becomes `t_on = t_off = period / 2` -/
def timerKwargs (kw : TimerKw) : Except ErrKind TimerKw :=
  match kw.tPeriod with
  | some p =>
    if kw.tOn.isSome || kw.tOff.isSome then .error .typeError
    else match timePeriodDur p with
      | .error e => .error e
      | .ok d =>
        match halfDur d with
        | .error e => .error e
        | .ok h => .ok { tOn := some h, tOff := some h }
  | none => .ok kw

/-- `Timer(**kw, restartable=…, initdef=…)`: `Timer.__init__`, then `FSM.__init__` (which converts the
    `t_` arguments with `time_period`) -/
def timerNew (kw : TimerKw) (restartable : Bool) (initState : String := Gen.timerDefault) : Except ErrKind Cfg :=
  match timerKwargs kw with
  | .error e => .error e
  | .ok k =>
    if k.tOn = some .bad || k.tOff = some .bad then .error .valueError
    else .ok (timerCfg (k.tOn.getD .none) (k.tOff.getD .none) restartable initState)

def inputExpTable : Table :=
  { states := Gen.inputExpStates, events := Gen.inputExpEvents, trans := Gen.inputExpTrans
    timed := Gen.inputExpTimed.map (fun (q, e, d) => (q, e, Dur.ofGen d))
    chainLimit := Gen.inputExpChainLimit }

/-- `InputExp(duration=…, expired=…, initdef=…)` -/
def inputExpCfg (duration : Dur) (expired : Val) (initdef : Option Val) : Cfg :=
  { tbl := inputExpTable
    tDur := [("valid", duration)]
    conds := [("put", .store)]
    outFn := .inputExp expired
    initState := if initdef.isSome then "valid" else Gen.inputExpDefault
    initInput := initdef }

end Edzed.FsmTimer
