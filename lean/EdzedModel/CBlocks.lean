/-
Constructors and argument passing of the library CBlocks (edzed/blocklib/cblocks.py), the part of C01's
model that `Sim.calcBlk` (EdzedModel/Simulate.lean) takes for granted:

* `FuncBlock.calc_output`: WHICH arguments the user's function receives – the unnamed inputs as
  separate positional arguments (`unpack=True`, the default) or as ONE tuple (`unpack=False`), every
  named single input as a keyword argument holding a value, every named group as a keyword argument
  holding a tuple (`funcCall`); the scripts that stand for user functions are functions of that call
  (`Script.apply`);
* the constructors: `Compare(low=, high=)` refuses `high < low`, `FuncBlock(unpack=True)`,
  `Override(null_value=None)`.
-/
import EdzedModel.Simulate

namespace Edzed.CBlocks
open Edzed.Sim

/-- what the function receives for one input name -/
inductive Arg where
  | one (v : Val)            -- a single input: its value
  | many (vs : List Val)     -- a group: the tuple of its values
  deriving Repr, Inhabited, DecidableEq

/-- `func(*pos, **kw)` -/
structure Call where
  pos : List Arg
  kw  : List (String × Arg)
  deriving Repr, Inhabited, DecidableEq

/-- the documented call of a FuncBlock's function for the current outputs of its inputs -/
def funcCall (b : CBlk) (unpack : Bool) (outC outS : Nat → Val) : Call :=
  let group := b.pos.map (Src.val outC outS)
  let kw := b.named.map (fun p => (p.1, Arg.one (p.2.val outC outS)))
            ++ b.groups.map (fun g => (g.1, Arg.many (g.2.map (Src.val outC outS))))
  if unpack then ⟨group.map Arg.one, kw⟩ else ⟨[Arg.many group], kw⟩

/-- keyword argument `k` when it is a value -/
def Call.one (c : Call) (k : String) : Val :=
  match c.kw.find? (·.1 == k) with
  | some (_, .one v) => v
  | _ => .undef

/-- keyword argument `k` when it is a tuple -/
def Call.many (c : Call) (k : String) : List Val :=
  match c.kw.find? (·.1 == k) with
  | some (_, .many vs) => vs
  | _ => []

/-- the unnamed inputs as a function written for this `unpack` mode sees them: `*a` / the one tuple `a` -/
def Call.unnamed (c : Call) (unpack : Bool) : List Val :=
  if unpack then c.pos.filterMap (fun | .one v => some v | .many _ => none)
  else match c.pos with
    | [.many vs] => vs
    | _ => []

/-- the user functions of the correspondence harness (harness/props/simcommon.py: FUNCS), as functions
    of the call they receive -/
def Script.apply (f : Script) (unpack : Bool) (c : Call) : Val :=
  match f with
  | .cnt => Val.int (countTruthy (c.unnamed unpack))                 -- lambda *a / lambda a: number of true values
  | .sel => if (c.one "c").truthy then c.one "x" else c.one "y"      -- lambda …, c, x, y: x if c else y
  | .glen => Val.int (countTruthy (c.many "g") + (c.unnamed unpack).length)
  | .big => Val.int (1000 + countTruthy (c.unnamed unpack))              -- lambda *a / lambda a: 1000 + number of true values

/-- rendering for the line protocol; keyword arguments sorted by name (a dict has no order to compare) -/
def Arg.render : Arg → String
  | .one v => "o:" ++ v.render
  | .many vs => "m:" ++ "|".intercalate (vs.map Val.render)

def insertKw (p : String × Arg) : List (String × Arg) → List (String × Arg)
  | [] => [p]
  | q :: r => if p.1 < q.1 then p :: q :: r else q :: insertKw p r

def Call.render (c : Call) : String :=
  "pos=" ++ ",".intercalate (c.pos.map Arg.render) ++ " kw=" ++
    ",".intercalate ((c.kw.foldr insertKw []).map fun p => p.1 ++ "=" ++ p.2.render)

/-! ### constructors -/

inductive CtorErr where
  | valueError
  deriving Repr, Inhabited, DecidableEq

/-- `Compare(name, low=…, high=…)` -/
def mkCompare (low high : Rat) : Except CtorErr Fn :=
  if high < low then .error .valueError else .ok (.compare low high)

/-- `FuncBlock(name, func=…, unpack=…)`; `unpack` omitted = `True` -/
def mkFunc (f : Script) (unpack : Option Bool) : Fn := .func f (unpack.getD true)

/-- `Override(name, null_value=…)`; omitted = `None` -/
def mkOverride (null : Option Val) : Fn := .override (null.getD Val.none)

/-! ### `FuncBlock.start`: does the function fit the connected inputs? -/

/-- what `self._func` holds -/
inductive FuncSlot where
  | user        -- the user's function
  | bind        -- `inspect.signature(func).bind` (raises TypeError iff the arguments do not fit the signature)
  deriving Repr, Inhabited, DecidableEq

/-- `FuncBlock.start()` when the trial call `calc_output()` with `bind` in place of the function raised
    `trial` (none = it fits): the function is back in its slot in every case; a mismatch is a TypeError,
    any other exception passes unchanged; the base class `start()` (second component) runs only after a
    successful trial -/
def funcStart (trial : Option String) : FuncSlot × Bool × Except String Unit :=
  match trial with
  | none => (.user, true, .ok ())
  | some e => (.user, false, .error e)

end Edzed.CBlocks
