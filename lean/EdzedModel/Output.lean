/-
Model of the output assignment of a block and of its output events
(edzed/block.py: `SBlock.set_output`, `CBlock.eval_block`, `Event.send`,
`event_tuple` / `_to_tuple`).

* a block has a name, a tuple of `on_output` events and (sequential blocks only) a tuple of
  `on_every_output` events (`event_tuple` normalises None / one event / a sequence to a tuple:
  the model's lists are these tuples);
* `previous == value` is `Val.pyEq`; when the new value compares equal the stored object is
  KEPT (`1` then `True` leaves `1`);
* `Event.send(source, **data)`: `data['source'] = source.name`, then the filters as a pipeline
  (a filter is a script: it edits the data, accepts or rejects), then `dest.event(etype, **data)`;
* what a destination does with an event is not part of the model: a destination that makes the
  SENDER assign again while it is being served (re-entrancy) is outside the model.
-/
import EdzedModel.Basic.Val

namespace Edzed.Output

/-- event filter scripts (the harness builds the Python callables from the same scripts) -/
inductive Filt where
  | accept                          -- `lambda d: True`
  | reject                          -- `lambda d: False` / `None` / `0`
  | set (k : String) (v : Val)      -- `d[k] = v`, accepted (returns the dict or mutates in place)
  | del (k : String)                -- `d.pop(k, None)`, accepted
  | copy (src dst : String)         -- `if src in d: d[dst] = d[src]`, accepted
  | ifTruthy (k : String)           -- `lambda d: d.get(k)`
  | ifDefined (k : String)          -- `lambda d: d.get(k) is not UNDEF`  (cf. `not_from_undef`)
  | clear                           -- `d.clear(); return d` / `return {}` / deletes every key:
                                    --   an EMPTY mapping is a mapping, not a rejection
  | replace (m : Data)              -- `lambda d: {...}`: a new mapping (dict, UserDict, ChainMap, …)
                                    --   of any size, the empty one included
  deriving DecidableEq, Repr, Inhabited

/-- the script returns a mapping (`isinstance(retval, MutableMapping)`), or edits in place and
    returns a true value: the event goes on with that mapping WHATEVER ITS SIZE -/
def Filt.returnsMapping : Filt → Bool
  | .set .. | .del .. | .copy .. | .clear | .replace .. => true
  | _ => false

/-- one filter call: `none` = rejected, `some d` = the data that go on -/
def Filt.apply (f : Filt) (d : Data) : Option Data :=
  match f with
  | .accept => some d
  | .reject => none
  | .set k v => some (d.set k v)
  | .del k => some (d.erase k)
  | .copy s t => match d.get? s with
    | some v => some (d.set t v)
    | none => some d
  | .ifTruthy k => match d.get? k with
    | some v => if v.truthy then some d else none
    | none => none
  | .ifDefined k => match d.get? k with
    | some .undef => none
    | _ => some d
  | .clear => some []
  | .replace m => some m

/-- the filter loop of `Event.send` -/
def runFilters : List Filt → Data → Option Data
  | [], d => some d
  | f :: fs, d => match f.apply d with
    | none => none
    | some d' => runFilters fs d'

/-- the argument of every filter call that is made (the pipeline stops at a rejection) -/
def filterCalls : List Filt → Data → List Data
  | [], _ => []
  | f :: fs, d => d :: match f.apply d with
    | none => []
    | some d' => filterCalls fs d'

/-- an `edzed.Event`: destination, event type, filters -/
structure Ev where
  dest : String
  etype : String
  filters : List Filt := []
  deriving DecidableEq, Repr, Inhabited

structure Cfg where
  name : String
  onOutput : List Ev := []
  onEvery : List Ev := []       -- SBlocks only; `CBlock.eval_block` does not look at it
  deriving Repr, Inhabited

inductive Slot where
  | output | every
  deriving DecidableEq, Repr, Inhabited

/-- the keyword arguments of `event.send(self, trigger='output', previous=…, value=…)` -/
def kwargs (previous value : Val) : Data :=
  [("trigger", .str "output"), ("previous", previous), ("value", value)]

/-- one call of `Event.send` -/
structure Sent where
  slot : Slot
  idx : Nat                     -- position in the configured tuple
  ev : Ev
  raw : Data                    -- the data entering the filters (`source` added)
  visible : Val                 -- the sender's stored output while the event is sent
  result : Option Data          -- `none`: rejected by a filter; `some d`: `dest.event(etype, **d)`
  deriving Repr, Inhabited

/-- `Event.send(source, **data)` -/
def Ev.send (e : Ev) (slot : Slot) (idx : Nat) (source : String) (data : Data) (visible : Val) : Sent :=
  let raw := data.set "source" (.str source)
  { slot, idx, ev := e, raw, visible, result := runFilters e.filters raw }

/-- the events number `i`, `i+1`, … of a tuple, one after the other -/
def sendFrom (slot : Slot) (source : String) (previous value visible : Val) : Nat → List Ev → List Sent
  | _, [] => []
  | i, e :: es => e.send slot i source (kwargs previous value) visible
                  :: sendFrom slot source previous value visible (i + 1) es

/-- `for event in events: event.send(self, trigger='output', previous=previous, value=value)` -/
def sendAll (slot : Slot) (source : String) (evs : List Ev) (previous value visible : Val) : List Sent :=
  sendFrom slot source previous value visible 0 evs

/-- result of one assignment that was not refused -/
structure Step where
  out : Val                     -- the stored output afterwards
  changed : Bool                -- `_output` was assigned (return value of `eval_block`)
  enq : Bool                    -- `circuit.sblock_queue.put_nowait(self)` was called
  sends : List Sent
  deriving Repr, Inhabited

inductive Res where
  | valueError                  -- "Output value must not be <UNDEF>": nothing happened
  | ok (s : Step)
  deriving Repr, Inhabited

/-! ### float NaN

The shared value domain `Val` has no NaN on purpose: `Val.pyEq` is an equivalence relation there and
other models rely on it.  Output assignments are the place where the one value that is not equal to
itself matters (`previous == value` is False for NaN even when it is the very same object), so this
model carries NaN through the event data as a RESERVED value and uses a comparison that knows it. -/

/-- the carrier of float NaN in the event data (a string no generator produces) -/
def nanVal : Val := .atom (.str "\x00NaN")

def isNan (v : Val) : Bool := v == nanVal

/-- Python's `a == b` on the value domain extended by NaN: NaN is equal to nothing, not even to
    itself; everything else as `Val.pyEq` -/
def pyEqN (a b : Val) : Bool := !(isNan a) && !(isNan b) && a.pyEq b

/-- `SBlock.set_output(value)` on a block whose stored output is `out`; `eq` is the model of
    Python's `previous == value` -/
def setOutputWith (eq : Val → Val → Bool) (c : Cfg) (out v : Val) : Res :=
  if v.isUndef then .valueError
  else if eq out v then
    if c.onEvery.isEmpty then .ok { out := out, changed := false, enq := false, sends := [] }
    else .ok { out := out, changed := false, enq := false,
               sends := sendAll .every c.name c.onEvery out v out }
  else
    .ok { out := v, changed := true, enq := true,
          sends := sendAll .output c.name c.onOutput out v v
                   ++ sendAll .every c.name c.onEvery out v v }

/-- `CBlock.eval_block()` where `calc_output()` returned `v` -/
def evalBlockWith (eq : Val → Val → Bool) (c : Cfg) (out v : Val) : Res :=
  if v.isUndef then .valueError
  else if eq out v then .ok { out := out, changed := false, enq := false, sends := [] }
  else .ok { out := v, changed := true, enq := false,
             sends := sendAll .output c.name c.onOutput out v v }

/-- the two functions over the NaN-free shared domain: these are what the translation of the
    source (Gen/TranslatedOutput.lean, theorems `TrTie.translated_*_is_model`) is compared with -/
def setOutput (c : Cfg) (out v : Val) : Res := setOutputWith Val.pyEq c out v
def evalBlock (c : Cfg) (out v : Val) : Res := evalBlockWith Val.pyEq c out v

inductive BKind where
  | sblock | cblock
  deriving DecidableEq, Repr, Inhabited

/-- one output assignment of a block of kind `k`, NaN included -/
def assign : BKind → Cfg → Val → Val → Res
  | .sblock => setOutputWith pyEqN
  | .cblock => evalBlockWith pyEqN

/-- the end of an accepted top-level FSM transition (`FSM._ctx_event`):
    `output = self.calc_output(); if output is not UNDEF: self.set_output(output)` —
    `none`: the state leaves the output alone; otherwise exactly one `set_output`, whether the
    value compares equal to the current output or not -/
def fsmTransition (c : Cfg) (out cv : Val) : Option Res :=
  if cv.isUndef then none else some (assign .sblock c out cv)

/-- one assignment of a history: the stored output before, the assigned value, what happened -/
structure Rec where
  before : Val
  value : Val
  res : Res
  deriving Repr, Inhabited

/-- the stored output after the assignment -/
def Rec.after (r : Rec) : Val :=
  match r.res with
  | .valueError => r.before
  | .ok s => s.out

def Rec.sends (r : Rec) : List Sent :=
  match r.res with
  | .valueError => []
  | .ok s => s.sends

/-- a whole history of assignments, starting with the stored output `out` -/
def run (k : BKind) (c : Cfg) : Val → List Val → List Rec
  | _, [] => []
  | out, v :: vs =>
    let r : Rec := ⟨out, v, assign k c out v⟩
    r :: run k c r.after vs

/-! ### the observable order of actions inside one assignment -/

inductive Act where
  | enqueue                                                   -- `sblock_queue.put_nowait(self)`
  | filt (slot : Slot) (idx fidx : Nat) (input : Data)        -- a filter is called with `input`
  | deliver (slot : Slot) (idx : Nat) (dest etype : String) (data : Data) (visible : Val)
  deriving Repr, Inhabited

def Sent.acts (s : Sent) : List Act :=
  (filterCalls s.ev.filters s.raw).mapIdx (fun j d => Act.filt s.slot s.idx j d)
  ++ match s.result with
     | none => []
     | some d => [.deliver s.slot s.idx s.ev.dest s.ev.etype d s.visible]

/-- the output is stored and the block is queued for the simulator BEFORE the events go out -/
def Step.acts (s : Step) : List Act :=
  (if s.enq then [Act.enqueue] else []) ++ s.sends.flatMap Sent.acts

/-! ### reading the event data -/

def Sent.previous (s : Sent) : Option Val := s.raw.get? "previous"
def Sent.value (s : Sent) : Option Val := s.raw.get? "value"
def Sent.source (s : Sent) : Option Val := s.raw.get? "source"
def Sent.trigger (s : Sent) : Option Val := s.raw.get? "trigger"

/-- all `Event.send` calls of a history made for the event number `i` of a slot, in time order -/
def sendsOf (slot : Slot) (i : Nat) (rs : List Rec) : List Sent :=
  (rs.flatMap Rec.sends).filter fun s => s.slot == slot && s.idx == i

end Edzed.Output
