/-
Constructors and synchronous parts of the output blocks (edzed/blocklib/sblocks2.py):
`_check_arg`, `OutputAsync.__init__` / `start` / `init_regular`, `OutputFunc.__init__` / `_event_put` /
`init_regular` / `stop`.

Arguments are modelled by what the code can tell apart: a value passed as `f_args` / `f_kwargs` is a str, not a
sequence at all, or a sequence whose items are strs or not; a value passed as `on_…` is None, events, or
something without `send`; `guard_time` is None, a period (µs after `time_period`) or refused by `time_period`.
The user's function of an OutputFunc is a script `args → kwargs → result | exception`.
-/
import EdzedModel.Basic.Val

namespace Edzed.OutputBlocks

/-- a value passed as `f_args` / `f_kwargs` -/
inductive ArgSpec where
  | str (s : String)                    -- a str (a sequence of characters, refused)
  | notSeq                              -- not a Sequence (None, a number, a set, a dict …)
  | seq (items : List (Option String))  -- a sequence; `none` = an item that is not a str
  deriving DecidableEq, Repr, Inhabited

/-- `_check_arg`: a sequence (not a str) of strs -/
def ArgSpec.ok : ArgSpec → Bool
  | .seq items => items.all Option.isSome
  | _ => false

/-- the keys of a checked argument -/
def ArgSpec.keys : ArgSpec → List String
  | .seq items => items.filterMap id
  | _ => []

/-- the default `('value',)` of both constructors -/
def defaultFArgs : ArgSpec := .seq [some "value"]
/-- the default `()` -/
def defaultFKwargs : ArgSpec := .seq []

/-- a value passed as `on_success` / `on_cancel` / `on_error` to `block.event_tuple` -/
inductive EvArg where
  | none                -- None: no events
  | events (n : Nat)    -- one event (n = 1) or a sequence of n events
  | bad                 -- something without a `send` attribute: TypeError
  deriving DecidableEq, Repr, Inhabited

/-- `guard_time` -/
inductive GuardArg where
  | none                -- None: no guard time
  | period (us : Int)   -- what `utils.time_period` returns, in µs (never negative: `max(0.0, …)`)
  | bad                 -- refused by `time_period`
  deriving DecidableEq, Repr, Inhabited

inductive InitErr where
  | argsNotStrings      -- TypeError of `_check_arg`
  | notEvents           -- TypeError of `event_tuple`
  | badGuard            -- exception of `time_period`
  | badMode             -- ValueError: mode is none of cancel / wait / start (or c / w / s)
  | superInit           -- `super().__init__` refused the remaining arguments
  | guardExceeds        -- ValueError: guard_time > stop_timeout
  deriving DecidableEq, Repr, Inhabited

inductive CtrlMode where
  | cancel | wait | start
  deriving DecidableEq, Repr, Inhabited

/-- `mode in {"c", "cancel"}` … -/
def modeOf (m : String) : Option CtrlMode :=
  if m == "c" || m == "cancel" then some .cancel
  else if m == "w" || m == "wait" then some .wait
  else if m == "s" || m == "start" then some .start
  else none

def EvArg.count : EvArg → Except InitErr Nat
  | .none => .ok 0
  | .events n => .ok n
  | .bad => .error .notEvents

/-- the arguments of `OutputAsync(…)`; `stopTimeout`: what `super().__init__` leaves in `self.stop_timeout`
    (µs; `none` = it raises) -/
structure AsyncArgs where
  mode : String
  fArgs : ArgSpec := defaultFArgs
  fKwargs : ArgSpec := defaultFKwargs
  guard : GuardArg := .none
  onSuccess : EvArg := .none
  onCancel : EvArg := .none
  onError : EvArg
  stopData : Option Data := none
  stopTimeout : Option Int
  deriving Repr

/-- what the constructor stores -/
structure AsyncBlk where
  ctrl : CtrlMode
  guard : Int
  fArgs : ArgSpec
  fKwargs : ArgSpec
  nSuccess : Nat
  nCancel : Nat
  nError : Nat
  stopData : Option Data
  stopTimeout : Int
  deriving DecidableEq, Repr

/-- `OutputAsync.__init__`, in the order of the code: `f_args` is checked (twice -- `f_kwargs` is NOT checked:
    the second call passes `f_args` again), the three event arguments, guard_time (None = 0), the mode, the
    rest of the arguments by `super().__init__`, and finally guard_time against stop_timeout -/
def constructAsync (a : AsyncArgs) : Except InitErr AsyncBlk := do
  if !a.fArgs.ok then throw .argsNotStrings
  let ns ← a.onSuccess.count
  let nc ← a.onCancel.count
  let ne ← a.onError.count
  let g ← match a.guard with
    | .none => pure 0
    | .period us => pure us
    | .bad => throw .badGuard
  let m ← match modeOf a.mode with
    | some m => pure m
    | none => throw .badMode
  let st ← match a.stopTimeout with
    | some t => pure t
    | none => throw .superInit
  if g > st then throw .guardExceeds
  pure { ctrl := m, guard := g, fArgs := a.fArgs, fKwargs := a.fKwargs, nSuccess := ns, nCancel := nc,
         nError := ne, stopData := a.stopData, stopTimeout := st }

/-- the arguments of `OutputFunc(…)`; `superOk`: `super().__init__` accepts the rest -/
structure FuncArgs where
  fArgs : ArgSpec := defaultFArgs
  fKwargs : ArgSpec := defaultFKwargs
  onSuccess : EvArg := .none
  onError : EvArg
  stopData : Option Data := none
  superOk : Bool := true
  deriving Repr

structure FuncBlk where
  fArgs : ArgSpec
  fKwargs : ArgSpec
  nSuccess : Nat
  nError : Nat
  stopData : Option Data
  deriving DecidableEq, Repr

/-- `OutputFunc.__init__`: both `f_args` and `f_kwargs` are checked -/
def constructFunc (a : FuncArgs) : Except InitErr FuncBlk := do
  if !a.fArgs.ok then throw .argsNotStrings
  if !a.fKwargs.ok then throw .argsNotStrings
  let ns ← a.onSuccess.count
  let ne ← a.onError.count
  if !a.superOk then throw .superInit
  pure { fArgs := a.fArgs, fKwargs := a.fKwargs, nSuccess := ns, nError := ne, stopData := a.stopData }

/-! ### `OutputFunc._event_put`, `stop` -/

/-- the user's function as a script: positional and keyword arguments ↦ result, or the number of an exception -/
abbrev Func := List Val → Data → Except Nat Val

/-- what an OutputFunc does, in order -/
inductive FEv where
  | call (args : List Val) (kwargs : Data)      -- `self._func(*args, **kwargs)`
  | success (dest : Nat) (v : Val)              -- on_success event to destination `dest`: trigger='success', value=v
  | error (dest : Nat) (e : Nat)                -- on_error event: trigger='error', error=e
  | superStop                                   -- `super().stop()`
  | output (b : Bool)                           -- `set_output(b)`
  deriving DecidableEq, Repr

/-- what `_event_put` returns / raises -/
inductive FRes where
  | result (v : Val)        -- ('result', v)
  | error (e : Nat)         -- ('error', exception)
  | keyError (k : String)   -- `data[k]` failed: KeyError propagates to the sender (nothing was called)
  deriving DecidableEq, Repr

/-- `tuple(data[k] for k in keys)`: the first missing key wins -/
def getAll (d : Data) : List String → Except String (List Val)
  | [] => .ok []
  | k :: ks =>
    match d.get? k with
    | none => .error k
    | some v => match getAll d ks with
      | .ok vs => .ok (v :: vs)
      | .error k' => .error k'

/-- `{k: data[k] for k in keys}` -/
def getAllKw (d : Data) : List String → Except String Data
  | [] => .ok []
  | k :: ks =>
    match d.get? k with
    | none => .error k
    | some v => match getAllKw d ks with
      | .ok vs => .ok ((k, v) :: vs)
      | .error k' => .error k'

structure FuncCfg where
  fArgs : List String
  fKwargs : List String
  nSuccess : Nat        -- number of on_success destinations
  nError : Nat
  stopData : Option Data
  deriving Repr

/-- `_event_put(**data)`: log (oldest first) and result -/
def eventPut (cfg : FuncCfg) (f : Func) (log : List FEv) (data : Data) : List FEv × FRes :=
  match getAll data cfg.fArgs with
  | .error k => (log, .keyError k)
  | .ok args =>
    match getAllKw data cfg.fKwargs with
    | .error k => (log, .keyError k)
    | .ok kwargs =>
      match f args kwargs with
      | .error e => (log ++ [.call args kwargs] ++ (List.range cfg.nError).map (fun d => .error d e), .error e)
      | .ok v => (log ++ [.call args kwargs] ++ (List.range cfg.nSuccess).map (fun d => .success d v), .result v)

/-- `init_regular`: the output of an OutputFunc is always False -/
def initRegular (log : List FEv) : List FEv := log ++ [.output false]

/-- `stop()`: stop_data, if any, is delivered like an event -- the last call of the function --, then `super().stop()`;
    a KeyError of that delivery propagates and `super().stop()` is not reached -/
def stop (cfg : FuncCfg) (f : Func) (log : List FEv) : List FEv × Option String :=
  match cfg.stopData with
  | none => (log ++ [.superStop], none)
  | some d =>
    match eventPut cfg f log d with
    | (log', .keyError k) => (log', some k)
    | (log', _) => (log' ++ [.superStop], none)

/-! ### `InExecutor` -/

/-- what `InExecutor.__call__` does, in order -/
inductive XEv where
  | enter                                   -- a fresh executor (pool) is entered
  | run (args : List Val) (kwargs : Data)   -- the function runs in the pool with these arguments
  | exit                                    -- the pool is shut down (`with`): on every outcome
  deriving DecidableEq, Repr

/-- `InExecutor(func)(*args, **kwargs)`: the blocking function is executed in a pool with exactly the given
    positional and keyword arguments; its result is returned, its exception propagates; the pool is left
    in both cases -/
def inExecutorCall (f : Func) (args : List Val) (kwargs : Data) : List XEv × Except Nat Val :=
  ([.enter, .run args kwargs, .exit], f args kwargs)

end Edzed.OutputBlocks
