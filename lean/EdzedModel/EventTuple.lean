/-
Model of the normalisation of the `on_output` / `on_every_output` / `efilter` arguments
(edzed/block.py: `event_tuple`, `efilter_tuple`; `_to_tuple` is modelled in RepeatCtor.lean).

`None`, a single item, a tuple or another ordered collection become the tuple of the items — every
occurrence, in the order given (an `Event` object listed twice is sent twice) — after each item was
checked (`hasattr(event, 'send')`, `callable(efilter)`); the first failing item raises TypeError.
The lists `Cfg.onOutput` / `Cfg.onEvery` / `Ev.filters` of the output model (Output.lean) are these tuples.
-/
import EdzedModel.RepeatCtor

namespace Edzed.EventTuple

open Edzed.Gen.TrC (Exc ArgsT)

/-- `event_tuple(events)`; `hasSend`: the item has a `send` attribute -/
def eventTuple {ι : Type} (hasSend : ι → Bool) (events : ArgsT ι) : Except Exc (List ι) :=
  RepeatCtor.toTuple events fun e => if hasSend e then .ok () else .error "TypeError"

/-- `efilter_tuple(efilters)` -/
def efilterTuple {ι : Type} (isCallable : ι → Bool) (efilters : ArgsT ι) : Except Exc (List ι) :=
  RepeatCtor.toTuple efilters fun f => if isCallable f then .ok () else .error "TypeError"

end Edzed.EventTuple
