/-
Model of `edzed/blocklib/timeinterval.py` (time / date / date-time interval notations) and of
the parse methods of `edzed/blocklib/timedate.py`.

Endpoints are lists of naturals: time `[h, m, s, µs]`, date `[month, day]` (dummy leap year
`Gen.dummyYear`), date-time `[y, mo, d, h, mi, s, µs]`; Python compares the underlying
`datetime` objects like these tuples (lexicographically).

Strings are `List Char`.  The string converters mirror, for ASCII input:
  * `convert_time_str`: `time.fromisoformat` of CPython 3.12 (`parse_hh_mm_ss_ff`, with its
    quirks), then `strptime` with the four formats;
  * `_convert_str`: the regular expressions `_RE_TIME`, `_RE_YMD`, `_RE_YEAR`, `_RE_ISO_DM`,
    `_RE_MONTH`, `_RE_DAY` (leftmost search, greedy, removal of the matched part by
    `_match_pattern`);
  * `convert_datetime_str`: `datetime.fromisoformat` of CPython 3.12 for strings containing `T`.
What is outside (non-ASCII characters, ISO week dates, a time zone designator in an ISO
date-time that the fallback parser would accept, integers beyond a C int) is answered with
`Res.unsupported`, never with a guessed value.

All functions are structurally recursive (kernel-evaluable, `decide`-friendly).
-/
import EdzedModel.Gen.Constants

namespace Edzed.Interval

/-! ### results -/

inductive Err where
  | value        -- ValueError
  | type         -- TypeError
  deriving DecidableEq, Repr, Inhabited

inductive Res (α : Type) where
  | ok (a : α)
  | err (e : Err)
  | unsupported
  deriving DecidableEq, Repr

instance : Inhabited (Res α) := ⟨.unsupported⟩

def Res.bind : Res α → (α → Res β) → Res β
  | .ok a, f => f a
  | .err e, _ => .err e
  | .unsupported, _ => .unsupported

def Res.map (f : α → β) : Res α → Res β
  | .ok a => .ok (f a)
  | .err e => .err e
  | .unsupported => .unsupported

def Res.ofOption : Option α → Res α
  | some a => .ok a
  | none => .err .value

inductive Kind where
  | time | date | datetime
  deriving DecidableEq, Repr, Inhabited

abbrev Ep := List Nat
abbrev Range := Ep × Ep

/-! ### ordering (tuple comparison) -/

/-- lexicographic `<` of integer tuples -/
def lt : List Nat → List Nat → Bool
  | [], [] => false
  | [], _ :: _ => true
  | _ :: _, [] => false
  | a :: as, b :: bs => decide (a < b) || (decide (a = b) && lt as bs)

/-- `a <= b` (for tuples of equal length: not `b < a`) -/
def le (a b : List Nat) : Bool := !lt b a

/-- `(start1, stop1) < (start2, stop2)` -/
def rangeLt (r1 r2 : Range) : Bool := lt r1.1 r2.1 || (decide (r1.1 = r2.1) && lt r1.2 r2.2)
def rangeLe (r1 r2 : Range) : Bool := !rangeLt r2 r1

def insertR (r : Range) : List Range → List Range
  | [] => [r]
  | x :: xs => if rangeLe r x then r :: x :: xs else x :: insertR r xs

/-- `sorted(...)` of the ranges -/
def sortR : List Range → List Range
  | [] => []
  | r :: rs => insertR r (sortR rs)

/-! ### membership -/

/-- `_Interval._cmp_open`: left-closed, right-open, wrapping when `high <= low` -/
def cmpOpen (lo x hi : Ep) : Bool :=
  if lt lo hi then le lo x && lt x hi else le lo x || lt x hi

/-- `_Interval._cmp_closed`: closed, wrapping when `high < low` -/
def cmpClosed (lo x hi : Ep) : Bool :=
  if le lo hi then le lo x && le x hi else le lo x || le x hi

/-- `DateTimeInterval._cmp_open`: no wrapping -/
def cmpNoWrap (lo x hi : Ep) : Bool := le lo x && lt x hi

def cmp : Kind → Ep → Ep → Ep → Bool
  | .time => cmpOpen
  | .date => cmpClosed
  | .datetime => cmpNoWrap

/-- `item in interval` -/
def contains (k : Kind) (iv : List Range) (x : Ep) : Bool := iv.any fun r => cmp k r.1 x r.2

/-- `range_endpoints()`: all range start and stop values (a set in Python: order and multiplicity are not observable) -/
def rangeEndpoints (iv : List Range) : List Ep := iv.flatMap fun r => [r.1, r.2]

/-- numeric form of `_cmp_open` on a linear scale (µs of day) -/
def inOpen (lo x hi : Nat) : Bool :=
  if lo < hi then decide (lo ≤ x) && decide (x < hi) else decide (lo ≤ x) || decide (x < hi)

/-- numeric form of `_cmp_closed` on a linear scale (day of the dummy year) -/
def inClosed (lo x hi : Nat) : Bool :=
  if lo ≤ hi then decide (lo ≤ x) && decide (x ≤ hi) else decide (lo ≤ x) || decide (x ≤ hi)

/-! ### calendar -/

def isLeap (y : Nat) : Bool := y % 4 == 0 && (y % 100 != 0 || y % 400 == 0)

def daysInMonth (y mo : Nat) : Nat :=
  if mo = 2 then (if isLeap y then 29 else 28)
  else if mo = 4 ∨ mo = 6 ∨ mo = 9 ∨ mo = 11 then 30 else 31

def validTime : Ep → Bool
  | [h, m, s, us] => decide (h < 24) && decide (m < 60) && decide (s < 60) && decide (us < 1000000)
  | _ => false

def validDateIn (y : Nat) (mo d : Nat) : Bool :=
  decide (1 ≤ mo) && decide (mo ≤ 12) && decide (1 ≤ d) && decide (d ≤ daysInMonth y mo)

def validDate : Ep → Bool
  | [mo, d] => validDateIn Gen.dummyYear mo d
  | _ => false

def validDateTime : Ep → Bool
  | [y, mo, d, h, mi, s, us] =>
    decide (1 ≤ y) && decide (y ≤ 9999) && validDateIn y mo d && validTime [h, mi, s, us]
  | _ => false

def validEp : Kind → Ep → Bool
  | .time => validTime
  | .date => validDate
  | .datetime => validDateTime

/-- microseconds since midnight -/
def timeUs : Ep → Nat
  | [h, m, s, us] => ((h * 60 + m) * 60 + s) * 1000000 + us
  | _ => 0

def usPerDay : Nat := Gen.secPerDay * 1000000

/-- days before the first of the month in the dummy (leap) year -/
def daysBefore (y : Nat) : Nat → Nat
  | 0 => 0
  | mo + 1 => daysBefore y mo + (if mo = 0 then 0 else daysInMonth y mo)

/-- 0-based day number within the dummy year -/
def dayIndex : Ep → Nat
  | [mo, d] => daysBefore Gen.dummyYear mo + d - 1
  | _ => 0

/-! ### integer sequences -/

def cIntLimit : Int := 2147483648

/-- the arguments of `dt.time(...)`/`dt.date(...)`/`dt.datetime(...)`: beyond a C int is an
    OverflowError (not modelled), negative a ValueError -/
def intsToNats (l : List Int) : Res (List Nat) :=
  if l.any (fun v => decide (v ≥ cIntLimit) || decide (v < -cIntLimit)) then .unsupported
  else if l.any (fun v => decide (v < 0)) then .err .value
  else .ok (l.map Int.toNat)

def padZeros (n : Nat) (l : List Nat) : List Nat := l ++ List.replicate (n - l.length) 0

def checkEp (k : Kind) (e : Ep) : Res Ep := if validEp k e then .ok e else .err .value

/-- `convert_time_seq`, `convert_date_seq`, `convert_datetime_seq` -/
def convertSeq (k : Kind) (l : List Int) : Res Ep :=
  let n := l.length
  match k with
  | .time => if 1 ≤ n ∧ n ≤ 4 then (intsToNats l).bind fun e => checkEp k (padZeros 4 e) else .err .value
  | .date => if n = 2 then (intsToNats l).bind fun e => checkEp k e else .err .value
  | .datetime => if 5 ≤ n ∧ n ≤ 7 then (intsToNats l).bind fun e => checkEp k (padZeros 7 e) else .err .value

/-! ### characters -/

def isDigit (c : Char) : Bool := decide (48 ≤ c.toNat) && decide (c.toNat ≤ 57)
def dval (c : Char) : Nat := c.toNat - 48
def isUpper (c : Char) : Bool := decide (65 ≤ c.toNat) && decide (c.toNat ≤ 90)
def isLower (c : Char) : Bool := decide (97 ≤ c.toNat) && decide (c.toNat ≤ 122)
def isAlpha (c : Char) : Bool := isUpper c || isLower c
def toUpper (c : Char) : Char := if isLower c then Char.ofNat (c.toNat - 32) else c
def toLower (c : Char) : Char := if isUpper c then Char.ofNat (c.toNat + 32) else c
/-- what `str.strip()` removes (ASCII part) -/
def isSpace (c : Char) : Bool :=
  (decide (9 ≤ c.toNat) && decide (c.toNat ≤ 13)) || (decide (28 ≤ c.toNat) && decide (c.toNat ≤ 32))

def asciiC (c : Char) : Bool := decide (0 < c.toNat) && decide (c.toNat < 128)

/-- the model covers ASCII text without NUL -/
def asciiOk (s : List Char) : Bool := s.all asciiC

def numOf (l : List Char) : Nat := l.foldl (fun a c => 10 * a + dval c) 0

def strip (s : List Char) : List Char :=
  ((s.dropWhile isSpace).reverse.dropWhile isSpace).reverse

def digitChar (n : Nat) : Char := Char.ofNat (48 + n % 10)

/-- zero padded decimal rendering with `k` digits (`f"{n:0k}"` for `n < 10^k`) -/
def pad : Nat → Nat → List Char
  | 0, _ => []
  | k + 1, n => pad k (n / 10) ++ [digitChar n]

/-- `str(n)` for the small numbers in use (day of month) -/
def natStr (n : Nat) : List Char :=
  if n < 10 then pad 1 n else if n < 100 then pad 2 n else (Nat.repr n).toList

/-- `str.capitalize()` on ASCII -/
def capitalize : List Char → List Char
  | [] => []
  | c :: cs => toUpper c :: cs.map toLower

/-- `sep in s` -/
def isInfix (sep : List Char) : List Char → Bool
  | [] => sep.isEmpty
  | c :: cs => sep.isPrefixOf (c :: cs) || isInfix sep cs

/-- `s.split(sep)` for a non-empty separator: leftmost, non-overlapping.
    `skip` counts the characters of a separator still to be dropped, `cur` is the reversed
    current piece. -/
def splitGo (sep : List Char) : List Char → Nat → List Char → List (List Char)
  | [], _, cur => [cur.reverse]
  | _ :: cs, skip + 1, cur => splitGo sep cs skip cur
  | c :: cs, 0, cur =>
    if sep.isPrefixOf (c :: cs) then cur.reverse :: splitGo sep cs (sep.length - 1) []
    else splitGo sep cs 0 (c :: cur)

def splitOn (sep s : List Char) : List (List Char) := splitGo sep s 0 []

/-! ### time strings -/

/-- `parse_digits(p, 2)` -/
def take2 : List Char → Option (Nat × List Char)
  | a :: b :: r => if isDigit a && isDigit b then some (10 * dval a + dval b, r) else none
  | _ => none

/-- the first (at most six) digits, right-padded with zeros to microseconds -/
def fracUs (ds : List Char) : Nat :=
  let d := ds.take 6
  numOf d * 10 ^ (6 - d.length)

/-- fractional part of `parse_hh_mm_ss_ff`: at least one digit, further digits are truncated,
    nothing else may follow -/
def isoFrac (h m s : Nat) (p : List Char) : Option Ep :=
  if !p.isEmpty && p.all isDigit then some [h, m, s, fracUs p] else none

inductive Nxt where
  | done | fail
  | cont (p : List Char)
  | frac (p : List Char)

/-- what `parse_hh_mm_ss_ff` does after a two-digit group; `first` = this was the hour,
    which decides `has_separator` -/
def isoNext (first sep : Bool) : List Char → Bool × Nxt
  | [] => (sep, .done)
  | [_] => (sep, .fail)
  | c :: r =>
    let sep := if first then c == ':' else sep
    if sep && c == ':' then (sep, .cont r)
    else if c == '.' || c == ',' then (sep, .frac r)
    else if !sep then (sep, .cont (c :: r))
    else (sep, .fail)

/-- `parse_hh_mm_ss_ff` on a string without time zone designator; `none` = invalid -/
def isoHMSF (p : List Char) : Option Ep :=
  match take2 p with
  | none => none
  | some (h, r) =>
    match isoNext true false r with
    | (_, .done) => some [h, 0, 0, 0]
    | (_, .fail) => none
    | (_, .frac q) => isoFrac h 0 0 q
    | (sep, .cont q) =>
      match take2 q with
      | none => none
      | some (m, r) =>
        match isoNext false sep r with
        | (_, .done) => some [h, m, 0, 0]
        | (_, .fail) => none
        | (_, .frac q) => isoFrac h m 0 q
        | (sep, .cont q) =>
          match take2 q with
          | none => none
          | some (s, r) =>
            match isoNext false sep r with
            | (_, .done) => some [h, m, s, 0]
            | (_, .fail) => none
            | (_, .frac q) => isoFrac h m s q
            | (_, .cont q) => isoFrac h m s q

/-- one or two digits, as the `strptime` directives `%H %M %S` take them -/
def field12 : List Char → Option (Nat × List Char)
  | a :: b :: r =>
    if isDigit a then (if isDigit b then some (10 * dval a + dval b, r) else some (dval a, b :: r))
    else none
  | [a] => if isDigit a then some (dval a, []) else none
  | [] => none

/-- `%f`: one to six digits -/
def strpFrac (q : List Char) : Option Nat :=
  if decide (1 ≤ q.length) && decide (q.length ≤ 6) && q.all isDigit then some (fracUs q) else none

/-- `strptime` with `%H:%M`, `%H:%M:%S`, `%H:%M:%S.%f`, `%H:%M:%S,%f` -/
def strpTime (s : List Char) : Option Ep :=
  match field12 s with
  | some (h, ':' :: r1) =>
    if h > 23 then none else
    match field12 r1 with
    | some (m, []) => if m > 59 then none else some [h, m, 0, 0]
    | some (m, ':' :: r3) =>
      if m > 59 then none else
      match field12 r3 with
      | some (sec, []) => if sec > 59 then none else some [h, m, sec, 0]
      | some (sec, c :: q) =>
        if sec > 59 then none
        else if c == '.' || c == ',' then (strpFrac q).map fun us => [h, m, sec, us]
        else none
      | none => none
    | _ => none
  | _ => none

def hasTz (p : List Char) : Bool := p.any fun c => c == 'Z' || c == '+' || c == '-'

def dropT : List Char → List Char
  | [] => []
  | c :: r => if c == 'T' then r else c :: r

/-- `convert_time_str`; both `fromisoformat` and `strptime` end in the `dt.time` constructor, which
    validates the fields.  A string with a time zone character (`Z + -`) is either a valid ISO
    time with a zone (refused explicitly) or matches neither the ISO nor a `strptime` format. -/
def convertTimeStripped (s : List Char) : Res Ep :=
  if hasTz (dropT s) then .err .value
  else match isoHMSF (dropT s) with
    | some e => if validTime e then .ok e else (Res.ofOption (strpTime s)).bind (checkEp .time)
    | none => (Res.ofOption (strpTime s)).bind (checkEp .time)

def convertTimeStr (s : List Char) : Res Ep := convertTimeStripped (strip s)

/-! ### regular expressions: leftmost search and removal (`_match_pattern`) -/

structure Match where
  len : Nat
  groups : List (List Char)

/-- the string with the matched part removed (joined by a space when the match was inside) -/
def removeMatch (pre rest : List Char) : List Char :=
  if pre.isEmpty then rest else if rest.isEmpty then pre.reverse else pre.reverse ++ ' ' :: rest

/-- `pattern.search(string)` + removal; `pre` is the reversed text before the position -/
def searchGo (m : List Char → Option Match) : List Char → List Char → Option (List Char × List (List Char))
  | pre, [] => (m []).map fun mt => (removeMatch pre [], mt.groups)
  | pre, c :: cs =>
    match m (c :: cs) with
    | some mt => some (removeMatch pre ((c :: cs).drop mt.len), mt.groups)
    | none => searchGo m (c :: pre) cs

def search (m : List Char → Option Match) (s : List Char) : Option (List Char × List (List Char)) :=
  searchGo m [] s

/-- greedy `\d{1,2}` -/
def digits12 : List Char → Option (List Char × List Char)
  | a :: b :: r => if isDigit a then (if isDigit b then some ([a, b], r) else some ([a], b :: r)) else none
  | [a] => if isDigit a then some ([a], []) else none
  | [] => none

/-- `\d{1,2}:` with backtracking -/
def hourColon : List Char → Option (List Char × List Char)
  | a :: b :: c :: r =>
    if isDigit a && isDigit b && c == ':' then some ([a, b, c], r)
    else if isDigit a && b == ':' then some ([a, b], c :: r)
    else none
  | [a, b] => if isDigit a && b == ':' then some ([a, b], []) else none
  | _ => none

/-- `(:\d{1,2})?` -/
def optSeconds : List Char → List Char × List Char
  | [] => ([], [])
  | c :: r =>
    if c == ':' then
      match digits12 r with
      | some (d, r') => (c :: d, r')
      | none => ([], c :: r)
    else ([], c :: r)

/-- `([.,]\d+)?` -/
def optFraction : List Char → List Char × List Char
  | c :: d :: r =>
    if (c == '.' || c == ',') && isDigit d then
      (c :: (d :: r).takeWhile isDigit, (d :: r).dropWhile isDigit)
    else ([], c :: d :: r)
  | s => ([], s)

/-- `_RE_TIME` at the current position -/
def reTime (s : List Char) : Option Match :=
  match hourColon s with
  | none => none
  | some (h, r) =>
    match digits12 r with
    | none => none
    | some (m, r) =>
      let (sec, r) := optSeconds r
      let (fr, _) := optFraction r
      let txt := h ++ m ++ sec ++ fr
      some ⟨txt.length, [txt]⟩

def take4digits : List Char → Option (List Char × List Char)
  | a :: b :: c :: d :: r =>
    if isDigit a && isDigit b && isDigit c && isDigit d then some ([a, b, c, d], r) else none
  | _ => none

def take2digits : List Char → Option (List Char × List Char)
  | a :: b :: r => if isDigit a && isDigit b then some ([a, b], r) else none
  | _ => none

/-- `_RE_YMD` at the current position: groups year, month (name or number), day -/
def reYMD (s : List Char) : Option Match :=
  match take4digits s with
  | some (y, c :: r) =>
    if c == '-' then
      let name := r.takeWhile isAlpha
      let mo : Option (List Char × List Char) :=
        if name.length ≥ 3 then some (name, r.dropWhile isAlpha) else take2digits r
      match mo with
      | some (mo, c' :: r) =>
        if c' == '-' then
          match take2digits r with
          | some (d, _) => some ⟨4 + 1 + mo.length + 1 + 2, [y, mo, d]⟩
          | none => none
        else none
      | _ => none
    else none
  | _ => none

/-- `_RE_YEAR` -/
def reYear (s : List Char) : Option Match :=
  match take4digits s with
  | some (y, _) => some ⟨4, [y]⟩
  | none => none

/-- `_RE_ISO_DM`: `--MMDD`, `--MM-DD` -/
def reIsoDM : List Char → Option Match
  | a :: b :: r =>
    if a == '-' && b == '-' then
      match take2digits r with
      | some (mo, r') =>
        let dashed := match r' with | c :: _ => c == '-' | [] => false
        match take2digits (if dashed then r'.drop 1 else r') with
        | some (d, _) => some ⟨if dashed then 7 else 6, [mo, d]⟩
        | none => none
      | none => none
    else none
  | _ => none

/-- is the next character a period (the optional `\.?`) -/
def periodNext : List Char → Bool
  | c :: _ => c == '.'
  | [] => false

/-- `_RE_MONTH`: three or more letters, an optional period -/
def reMonth (s : List Char) : Option Match :=
  let name := s.takeWhile isAlpha
  if name.length ≥ 3 then
    some ⟨if periodNext (s.dropWhile isAlpha) then name.length + 1 else name.length, [name]⟩
  else none

/-- `_RE_DAY`: one or two digits, an optional period -/
def reDay (s : List Char) : Option Match :=
  match digits12 s with
  | some (d, r) => some ⟨if periodNext r then d.length + 1 else d.length, [d]⟩
  | none => none

/-- index of the first month whose name starts with the capitalised `name` (`_name_to_month`) -/
def findMonth (cap : List Char) : List (List Char) → Nat → Option Nat
  | [], _ => none
  | mn :: rest, i => if decide (i > 0) && cap.isPrefixOf mn then some i else findMonth cap rest (i + 1)

def nameToMonth (name : List Char) : Option Nat := findMonth (capitalize name) Gen.monthNamesC 0

/-- month and day of a string from which year and time (if any) have been removed;
    returns the remaining text, month, day -/
def monthDay (s : List Char) : Res (List Char × Nat × Nat) :=
  match search reIsoDM s with
  | some (s, [mo, d]) => .ok (s, numOf mo, numOf d)
  | some _ => .unsupported      -- unreachable: the pattern has two groups
  | none =>
    match search reMonth s with
    | some (s, [name]) =>
      (match nameToMonth name with
       | none => .err .value
       | some mo =>
         match search reDay s with
         | some (s, [d]) => .ok (s, mo, numOf d)
         | _ => .err .value)
    | _ => .err .value

/-- `_convert_str(string, with_time=False)` on a stripped string, before the `dt.date` constructor -/
def dateRaw (s : List Char) : Res Ep :=
  (monthDay s).bind fun (rest, mo, d) =>
    if (strip rest).isEmpty then .ok [mo, d] else .err .value

def convertDateCore (s : List Char) : Res Ep := (dateRaw s).bind (checkEp .date)

/-- `convert_date_str` -/
def convertDateStr (s : List Char) : Res Ep := convertDateCore (strip s)

/-- `_convert_str(string, with_time=True)`, before the `dt.datetime` constructor -/
def dateTimeRaw (s : List Char) : Res Ep :=
  match search reTime s with
  | some (s, [t]) =>
    (convertTimeStr t).bind fun tm =>
      let ymd : Res (List Char × Nat × Option (Nat × Nat)) :=
        match search reYMD s with
        | some (s, [y, mo, d]) =>
          if mo.all isDigit then .ok (s, numOf y, some (numOf mo, numOf d))
          else (match nameToMonth mo with
                | some m => .ok (s, numOf y, some (m, numOf d))
                | none => .err .value)
        | some _ => .unsupported
        | none =>
          match search reYear s with
          | some (s, [y]) => .ok (s, numOf y, none)
          | _ => .err .value
      ymd.bind fun (s, y, md) =>
        let md' : Res (List Char × Nat × Nat) :=
          match md with
          | some (mo, d) => .ok (s, mo, d)
          | none => monthDay s
        md'.bind fun (rest, mo, d) =>
          if (strip rest).isEmpty then .ok ([y, mo, d] ++ tm) else .err .value
  | _ => .err .value

def convertDateTimeCore (s : List Char) : Res Ep := (dateTimeRaw s).bind (checkEp .datetime)

inductive Iso where
  | ok (e : Ep)
  | fail             -- ValueError inside `fromisoformat`: the traditional parser is tried
  | tz               -- a time zone designator: valid (refused) or invalid (traditional parser)
  | week             -- ISO week date (not modelled)

/-- `datetime.fromisoformat` (CPython 3.12) before the `datetime` constructor -/
def isoDateTimeRaw (s : List Char) : Iso :=
  if s.length < 7 then .fail else
  let weekForm := match s.drop 4 with
    | c :: rest => c == 'W' || (c == '-' && (match rest with | d :: _ => d == 'W' | [] => false))
    | [] => false
  if weekForm then .week else
  match take4digits s with
  | none => .fail
  | some (y, r) =>
    let dashed := match r with | c :: _ => c == '-' | [] => false
    let r := if dashed then r.drop 1 else r
    match take2digits r with
    | none => .fail
    | some (mo, r) =>
      let r? : Option (List Char) :=
        if dashed then (match r with | c :: r' => if c == '-' then some r' else none | [] => none) else some r
      match r? with
      | none => .fail
      | some r =>
        match take2digits r with
        | none => .fail
        | some (d, r) =>
          let date := [numOf y, numOf mo, numOf d]
          match r with
          | [] => .ok (date ++ [0, 0, 0, 0])
          | _ :: t =>
            if hasTz t then .tz else
            match isoHMSF t with
            | none => .fail
            | some tm => .ok (date ++ tm)

/-- `datetime.fromisoformat`: the constructor refuses out-of-range fields (ValueError) -/
def isoDateTime (s : List Char) : Iso :=
  match isoDateTimeRaw s with
  | .ok e => if validDateTime e then .ok e else .fail
  | r => r

/-- `convert_datetime_str` -/
def convertDateTimeStripped (s : List Char) : Res Ep :=
  if s.contains 'T' then
    match isoDateTime s with
    | .ok e => .ok e
    | .fail => convertDateTimeCore s
    | .tz => (match convertDateTimeCore s with
              | .err e => .err e     -- refused either way
              | _ => .unsupported)
    | .week => .unsupported
  else convertDateTimeCore s

def convertDateTimeStr (s : List Char) : Res Ep := convertDateTimeStripped (strip s)

def convertStr (k : Kind) (s : List Char) : Res Ep :=
  if !asciiOk s then .unsupported else
  match k with
  | .time => convertTimeStr s
  | .date => convertDateStr s
  | .datetime => convertDateTimeStr s

/-! ### ranges and intervals -/

inductive EpIn where
  | str (s : List Char)
  | ints (l : List Int)
  | bad                       -- neither a string nor a sequence (e.g. an integer)
  deriving Repr, Inhabited

inductive RangeIn where
  | str (s : List Char)
  | seq (l : List EpIn)
  | bad
  deriving Repr, Inhabited

inductive IvIn where
  | str (s : List Char)
  | seq (l : List RangeIn)    -- list, tuple or set of ranges
  | bad
  deriving Repr, Inhabited

/-- are the sub-intervals right-closed (`_RCLOSED_INTERVAL`)? -/
def rclosed : Kind → Bool
  | .date => true
  | _ => false

/-- `_Interval._convert` -/
def convert (k : Kind) : EpIn → Res Ep
  | .str s => convertStr k s
  | .ints l => convertSeq k l
  | .bad => .err .type

/-- the first separator (in the code's priority) that splits the string into exactly two parts -/
def firstSplit2 : List (List Char) → List Char → Option (List Char × List Char)
  | [], _ => none
  | sep :: seps, s =>
    match splitOn sep s with
    | [a, b] => some (a, b)
    | _ => firstSplit2 seps s

def parseRangeStr (k : Kind) (s : List Char) : Res Range :=
  match firstSplit2 Gen.rangeSeparatorsC s with
  | some (a, b) => (convertStr k a).bind fun x => (convertStr k b).bind fun y => .ok (x, y)
  | none => if rclosed k then (convertStr k s).bind fun e => .ok (e, e) else .err .value

/-- `_Interval._parse_range` -/
def parseRange (k : Kind) : RangeIn → Res Range
  | .str s => parseRangeStr k s
  | .seq [a, b] => (convert k a).bind fun x => (convert k b).bind fun y => .ok (x, y)
  | .seq [a] => if rclosed k then (convert k a).bind fun e => .ok (e, e) else .err .value
  | .seq _ => .err .value
  | .bad => .err .type

def parseRanges (k : Kind) : List RangeIn → Res (List Range)
  | [] => .ok []
  | r :: rs => (parseRange k r).bind fun x => (parseRanges k rs).bind fun xs => .ok (x :: xs)

/-- `if ivalue and not ivalue[-1].strip(): del ivalue[-1]` -/
def dropLastBlank (l : List (List Char)) : List (List Char) :=
  match l.getLast? with
  | some p => if (strip p).isEmpty then l.dropLast else l
  | none => l

def splitInterval (s : List Char) : List (List Char) :=
  let d := if isInfix Gen.delimiterC s then Gen.delimiterC else Gen.delimiterLegacyC
  dropLastBlank (splitOn d s)

/-- `_Interval.__init__`; the result is the sorted list of ranges -/
def parseInterval (k : Kind) : IvIn → Res (List Range)
  | .str s =>
    if !asciiOk s then .unsupported
    else (parseRanges k ((splitInterval s).map .str)).map sortR
  | .seq l => (parseRanges k l).map sortR
  | .bad => .err .type

/-- `as_list()`: nested lists of integers -/
def asList (iv : List Range) : List (List (List Nat)) := iv.map fun r => [r.1, r.2]

/-- the nested-sequence input denoting `as_list()` output -/
def listInput (l : List (List (List Nat))) : IvIn :=
  .seq (l.map fun r => .seq (r.map fun e => .ints (e.map Int.ofNat)))

/-! ### rendering -/

/-- `str(dt.time)` -/
def renderTime : Ep → List Char
  | [h, m, s, us] =>
    pad 2 h ++ ':' :: pad 2 m ++ ':' :: pad 2 s ++ (if us = 0 then [] else '.' :: pad 6 us)
  | _ => []

/-- `date_to_string` -/
def renderDate : Ep → List Char
  | [mo, d] => (Gen.monthNamesC.getD mo []).take 3 ++ ' ' :: natStr d
  | _ => []

/-- `str(dt.datetime)` -/
def renderDateTime : Ep → List Char
  | [y, mo, d, h, mi, s, us] =>
    pad 4 y ++ '-' :: pad 2 mo ++ '-' :: pad 2 d ++ ' ' :: renderTime [h, mi, s, us]
  | _ => []

def render : Kind → Ep → List Char
  | .time => renderTime
  | .date => renderDate
  | .datetime => renderDateTime

/-- `_range_string` -/
def rangeString (k : Kind) (r : Range) : List Char :=
  if rclosed k && r.1 == r.2 then render k r.1 ++ Gen.delimiterC
  else render k r.1 ++ ' ' :: (Gen.rangeSeparatorsC.headD []) ++ ' ' :: render k r.2 ++ Gen.delimiterC

def joinSp : List (List Char) → List Char
  | [] => []
  | [a] => a
  | a :: rest => a ++ ' ' :: joinSp rest

/-- `as_string()` -/
def asString (k : Kind) (iv : List Range) : List Char := joinSp (iv.map (rangeString k))

/-! ### `TimeDate.parse`, `TimeSpan.parse` -/

inductive WdIn where
  | str (s : List Char)
  | ints (l : List Int)
  deriving Repr, Inhabited

def weekdaysOfInts (l : List Int) : Res (List Nat) :=
  if l.all (fun x => decide (0 ≤ x) && decide (x ≤ 7)) then
    let m := l.map fun x => if x = 0 then 7 else x.toNat
    .ok ([1, 2, 3, 4, 5, 6, 7].filter fun d => m.contains d)
  else .err .value

/-- weekday normalisation of `TimeDate._parse3` + `_export3` (sorted, 0 → 7, no duplicates) -/
def parseWeekdays : WdIn → Res (List Nat)
  | .str s =>
    if !asciiOk s then .unsupported else
    let cs := s.filter fun c => !(c == ' ' || c == '\t')
    if cs.all isDigit then weekdaysOfInts (cs.map fun c => Int.ofNat (dval c)) else .err .value
  | .ints l => weekdaysOfInts l

structure TimeDateCfg where
  times : Option (List Range)
  dates : Option (List Range)
  weekdays : Option (List Nat)
  deriving Repr

def optParse (f : α → Res β) : Option α → Res (Option β)
  | none => .ok none
  | some a => (f a).map some

/-- `TimeDate.parse(times, dates, weekdays)` -/
def timeDateParse (times dates : Option IvIn) (weekdays : Option WdIn) : Res TimeDateCfg :=
  (optParse (parseInterval .time) times).bind fun t =>
    (optParse (parseInterval .date) dates).bind fun d =>
      (optParse parseWeekdays weekdays).bind fun w => .ok ⟨t, d, w⟩

/-- `TimeSpan.parse(span)` -/
def timeSpanParse (span : IvIn) : Res (List Range) := parseInterval .datetime span

end Edzed.Interval
