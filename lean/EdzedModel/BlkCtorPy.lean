/-
The declared leaves of the translation of the CONSTRUCTORS and of the circuit registry
(`tools/py2lean_blkctor.py` → `Gen/TranslatedBlkCtor.lean`):

    block.check_name, Block.__init__, Block.has_method, ExtEvent.__init__, Const.__new__ / __init__,
    SBlock.__init__, CBlock.__init__, Circuit.__init__, Circuit.is_current_task, reset_circuit, get_circuit

Statement order, conditions (`and` / `or` / `not`, `is None`, `isinstance`, truthiness by static type),
early returns, raises, `try / except` with the handler classes, loops, which value is stored under which
attribute name, signature defaults and the binding of `*args / **kwargs` come from the Python AST.
Declared here is only what a LEAF means:

* the monad `M σ` of the translated programs: a state `σ` (the heap of Python objects and the module globals)
  and an exception (the name of its class); the state reached so far is KEPT when an exception propagates;
* `Arg O`: what a caller may pass: a plain value (`Val`: None, bool, numbers, str, UNDEF, tuples/lists of
  these) or an object of the heap (`O`); truthiness, `is None`, `is UNDEF`, `isinstance(x, str)`,
  `x.startswith(p)` (AttributeError when `x` is not a str) on it;
* `AV O X`: what the code stores in an attribute;
* `bindArgs`: Python's binding of `f(*args, **kwargs)` to a signature;
* `CPrims`: the reads / writes of object attributes and module globals, and the calls of code that is
  translated by other modules or is not edzed's (`event_tuple`, `Circuit.addblock`, `Circuit.abort`,
  `getattr`, `callable`, `asyncio.current_task`, `object.__new__`, the `WeakValueDictionary` of `Const`).
-/
import EdzedModel.Basic.Val

namespace Edzed.BlkCtorPy

/-- the class name of a raised exception -/
abbrev PyExc := String

/-- a program: from a state to the state reached and a value or the exception that propagates -/
abbrev M (σ α : Type) := σ → σ × Except PyExc α

namespace M
variable {σ α β : Type}

def pure (a : α) : M σ α := fun s => (s, .ok a)
def bind (m : M σ α) (k : α → M σ β) : M σ β := fun s =>
  match m s with
  | (s1, .ok a) => k a s1
  | (s1, .error e) => (s1, .error e)
def raise (e : PyExc) : M σ α := fun s => (s, .error e)
def gets (f : σ → α) : M σ α := fun s => (s, .ok (f s))
def modify (f : σ → σ) : M σ Unit := fun s => (f s, .ok ())

/-- `try: body  except …: handler` (the handler decides by the class whether it catches) -/
def tryCatch (body : M σ α) (handler : PyExc → M σ α) : M σ α := fun s =>
  match body s with
  | (s1, .error e) => handler e s1
  | p => p

/-- `for x in l: body`; an exception ends the loop -/
def forM (l : List β) (f : β → M σ Unit) : M σ Unit :=
  match l with
  | [] => pure ()
  | x :: r => bind (f x) fun _ => forM r f

/-- `a and b` / `a or b` with Python's short circuit -/
def andM (a b : M σ Bool) : M σ Bool := bind a fun x => if x then b else pure false
def orM (a b : M σ Bool) : M σ Bool := bind a fun x => if x then pure true else b
def notM (a : M σ Bool) : M σ Bool := bind a fun x => pure (!x)

/-- an attribute access / method call on something that may be `None` -/
def deref (o : Option α) : M σ α :=
  match o with
  | some a => pure a
  | none => raise "AttributeError"

end M

/-- how a `try` statement inside a function is left: by `return` or by falling through
    (with the locals the rest of the function needs) -/
inductive Flow (ρ α : Type) where
  | ret (r : ρ)
  | next (a : α)

/-- what a caller may pass -/
inductive Arg (O : Type) where
  | val (v : Val)
  | obj (o : O)
  deriving DecidableEq, Repr, Inhabited

namespace Arg
variable {O : Type}

def none : Arg O := .val Val.none
def undef : Arg O := .val .undef

/-- `x is None` -/
def isNone : Arg O → Bool
  | .val (.atom .none) => true
  | _ => false

/-- `x is UNDEF` -/
def isUndef : Arg O → Bool
  | .val .undef => true
  | _ => false

/-- `isinstance(x, str)` -/
def isStr : Arg O → Bool
  | .val (.atom (.str _)) => true
  | _ => false

/-- `isinstance(x, str)` and the string -/
def str? : Arg O → Option String
  | .val (.atom (.str s)) => some s
  | _ => Option.none

/-- `bool(x)`: the truth value of a plain value; an object of the heap (block, event, circuit) defines
    neither `__bool__` nor `__len__` -/
def truthy : Arg O → Bool
  | .val v => v.truthy
  | .obj _ => true

end Arg

/-- `s.startswith(p)` on strings -/
def strStartsWith (s p : String) : Bool := p.toList.isPrefixOf s.toList

/-- `x.startswith(p)` on an argument: only a str has the method -/
def Arg.startsWith {σ O : Type} (a : Arg O) (p : String) : M σ Bool :=
  match a.str? with
  | some s => M.pure (strStartsWith s p)
  | Option.none => M.raise "AttributeError"

/-- `str(n)` of a non-negative int -/
def pyStrNat (n : Nat) : String := toString n

/-- what the constructors store in an attribute -/
inductive AV (O X : Type) where
  | arg (a : Arg O)                    -- an argument as it was given (also the literals None, False, 0, UNDEF)
  | str (s : String)                   -- a str computed by the code
  | bool (b : Bool)                    -- a bool computed by the code
  | obj (o : O)
  | optobj (o : Option O)
  | dict (items : List (String × O))   -- `{}` and what `addblock` puts into it
  | set (items : List O)               -- `set()`
  | ext (x : X)                        -- the result of a declared primitive
  deriving DecidableEq, Repr, Inhabited

/-! ### keyword arguments -/

abbrev Kw (α : Type) := List (String × α)

def kwGet? {α : Type} (kw : Kw α) (k : String) : Option α := (kw.find? (·.1 == k)).map (·.2)
def kwErase {α : Type} (kw : Kw α) (k : String) : Kw α := kw.filter (·.1 != k)
/-- `kwargs.pop(k, default)`: the value -/
def kwPopD {α : Type} (kw : Kw α) (k : String) (d : α) : α := (kwGet? kw k).getD d

/-- Python's binding of the call `f(*args, **kwargs)` to a signature with the positional-or-keyword
    parameters `pos` (after `self`), the keyword-only parameters `kwonly`, and `*vararg` / `**kwarg` present
    or not.  Result: for every parameter of `pos ++ kwonly` the argument given (`none`: the default applies or,
    without one, the call is a TypeError), the extra positional and the extra keyword arguments;
    `none` = TypeError (too many positional arguments, multiple values for a parameter, unexpected keyword). -/
def bindArgs {α : Type} (pos kwonly : List String) (hasVar hasKw : Bool) (args : List α) (kwargs : Kw α) :
    Option (List (Option α) × List α × Kw α) :=
  let extra := args.drop pos.length
  let rest := kwargs.filter fun p => !(pos ++ kwonly).contains p.1
  let multiple := (pos.take args.length).any fun p => (kwGet? kwargs p).isSome
  if (!extra.isEmpty && !hasVar) || (!rest.isEmpty && !hasKw) || multiple then Option.none
  else
    let posVals := (List.range pos.length).map fun i =>
      if i < args.length then args[i]? else kwGet? kwargs (pos.getD i "")
    some (posVals ++ kwonly.map (kwGet? kwargs), extra, rest)

/-! ### the leaves -/

/-- `σ` the state (heap + module globals), `O` an object of the heap, `X` the result of a primitive that is
    only stored, `T` an asyncio task, `A` what `getattr` returns -/
structure CPrims (σ O X T A : Type) where
  -- any object
  className : σ → O → String                    -- `type(obj).__name__`
  isInstance : σ → O → String → Bool            -- `isinstance(obj, <class of edzed with this name>)`
  setAttr : O → String → AV O X → σ → σ         -- `obj.<attr> = value`, `setattr(obj, attr, value)`
  nameOf : σ → O → String                       -- `blk.name` of a registered block
  -- module simulator
  current : σ → Option O                        -- the global `_current_circuit`
  setCurrent : Option O → σ → σ
  allocCircuit : M σ O                          -- `object.__new__(Circuit)`: a new object without attributes
  newResolver : O → X                           -- `_BlockResolver(self._validate_blk)`
  boundRegister : O → X                         -- `self._resolver.register`
  abort : O → String → M σ Unit                 -- `circuit.abort(<exception of this class>)` (may raise)
  simtask : σ → O → Option T                    -- `circuit._simtask`
  currentTask : M σ (Option T)                  -- `asyncio.current_task()` (RuntimeError without a running loop)
  findblock : O → String → M σ O                -- `circuit.findblock(name)` (KeyError)
  -- Block.__init__ and friends (`self` = the block under construction)
  selfTypeBlocks : σ → O → List O               -- `self.circuit.getblocks(type(self))`, in the order of the dict
  eventTuple : Arg O → M σ X                    -- `event_tuple(arg)` (raises for a non-event)
  addSelf : O → M σ Unit                        -- `self.circuit.addblock(self)` (raises)
  newInputGetter : O → X                        -- `self.InputGetter(self)`
  -- Block.has_method
  getattrM : O → String → M σ A                 -- `getattr(self, name)` (AttributeError)
  eqBound : A → O → String → Bool               -- `attr == <function of this qualified name>.__get__(self, type(self))`
  callable : A → Bool                           -- `callable(attr)`
  -- Const
  instancesGet : Arg O → M σ O                  -- `cls._instances[const]` (KeyError; TypeError when unhashable)
  instancesSet : Arg O → O → σ → σ              -- `cls._instances[const] = new`
  objectNew : String → M σ O                    -- `super().__new__(cls)`

/-- `isinstance(x, <class of edzed>)` on an argument: a plain value is an instance of none -/
def argIsInstance {σ O X T A : Type} (P : CPrims σ O X T A) (s : σ) (a : Arg O) (k : String) : Bool :=
  match a with
  | .obj o => P.isInstance s o k
  | .val _ => false

end Edzed.BlkCtorPy
