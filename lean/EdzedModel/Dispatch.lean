/-
Model of event dispatch in edzed: `SBlock.event` (edzed/block.py) with its recursion guard
`_event_active`, the context manager `_enable_event`, `Event.send` (filters), `EventCond`,
`SBlock.set_output` (on_output / on_every_output events), the early initialisation of a
destination block (`Circuit.init_sblock(full=True)`), `Circuit.abort`, `ExtEvent.send` and the
second synchronous initialisation pass (`Circuit._init_sblocks_sync_2`).

User code is represented by scripts (`Act`): what the handler of a probe block does.  Library
blocks `Input` and `Counter` are modelled with their real handlers (`Counter` through
`Edzed.Counter.step`); which data items a handler requires comes from the generated handler
tables `Gen.inputHandlers` / `Gen.counterHandlers`.

`deliver` mirrors `SBlock.event` statement by statement.  It is structurally recursive on the fuel
(= nesting depth of `event()` calls still allowed); everything a handler can do is written as
ordinary (non mutual) functions that receive the recursive call `dlv = deliver c fuel`.

Ghost state (no counterpart in the code, used by the theorems and by the correspondence):
`stack` – the explicit call stack of `event()` frames with their phase, `trace` – the
enter/exit log of the handlers with the nesting depth per block.
-/
import EdzedModel.Basic.Val
import EdzedModel.Counter
import EdzedModel.Gen.Constants

namespace Edzed.Dispatch

/-! ### event types -/

/-- what can be passed as `etype` -/
inductive EType where
  | none                          -- Python `None` (meaningful only as a branch of an EventCond)
  | empty                         -- `''`
  | nonStr                        -- neither a `str` nor an `EventType`, e.g. `5`
  | name (s : String)             -- a non-empty string
  | cond (etrue efalse : EType)   -- `EventCond(etrue, efalse)`
  | goto (st : Nat)               -- `fsm.Goto(state)` (an EventType; meaningful to FSM blocks only)
  deriving Repr, Inhabited, DecidableEq

inductive Exc where
  | unknownEvent    -- EdzedUnknownEvent
  | typeError       -- TypeError
  | valueError      -- ValueError
  | circuitError    -- EdzedCircuitError
  | runtimeError    -- RuntimeError (the scripts' `raise`)
  | invalidState    -- EdzedInvalidState
  | other           -- KeyError / IndexError of a malformed script
  | outOfFuel       -- model artefact: never produced with enough fuel (`fuel_suffices`)
  deriving Repr, Inhabited, DecidableEq

inductive Res where
  | ret (v : Val)
  | exc (e : Exc)
  deriving Repr, Inhabited, DecidableEq

/-- the two `isinstance` tests at the top of `SBlock.event` -/
def EType.check : EType → Option Exc
  | .empty => some .valueError
  | .nonStr => some .typeError
  | .none => some .typeError
  | _ => Option.none

/-- the `while isinstance(etype, EventCond)` loop; the result `.none` means "no event" -/
def EType.resolve (value : Bool) : EType → EType
  | .cond t f => if value then t.resolve value else f.resolve value
  | e => e

/-! ### circuit description -/

inductive Filter where
  | accept                 -- `lambda data: True`
  | reject                 -- `lambda data: False`
  | ifValue                -- `lambda data: data.get('value')`   (truthiness)
  | ifNotValue             -- `lambda data: not data.get('value')`
  | delValue               -- returns a dict without 'value'
  | setValue (v : Val)     -- returns a dict with 'value' replaced
  | notFromUndef           -- `lambda data: data.get('previous') is not UNDEF` (edzed.not_from_undef)
  deriving Repr, Inhabited

def dataTruthy (d : Data) : Bool :=
  match d.get? "value" with
  | some v => v.truthy
  | Option.none => false

/-- one filter: `none` = rejected, `some data'` = the data passed on -/
def Filter.apply : Filter → Data → Option Data
  | .accept, d => some d
  | .reject, _ => Option.none
  | .ifValue, d => if dataTruthy d then some d else Option.none
  | .ifNotValue, d => if dataTruthy d then Option.none else some d
  | .delValue, d => some (d.erase "value")
  | .setValue v, d => some (d.set "value" v)
  | .notFromUndef, d => if d.get? "previous" == some .undef then Option.none else some d

def applyFilters : List Filter → Data → Option Data
  | [], d => some d
  | f :: fs, d => match f.apply d with
    | some d' => applyFilters fs d'
    | Option.none => Option.none

/-- an `edzed.Event` object attached to a block -/
structure Edge where
  dest : Nat
  etype : EType
  filters : List Filter
  deriving Repr, Inhabited

/-- one statement of a scripted handler -/
inductive Act where
  | setOut (v : Val)                      -- `self.set_output(v)`
  | send (i : Nat) (value : Option Val)   -- `self.extra[i].send(self[, value=v])`
  | trySend (i : Nat) (value : Option Val) -- `try: self.extra[i].send(self[, value=v])` / `except Exception: pass`
  | raise                                 -- `raise RuntimeError`
  | rawEvent (dest : Nat) (et : EType)    -- `circuit.findblock(dest).event(et)` (any object as type)
  deriving Repr, Inhabited

/-- the value a scripted `cond_EVENT` callback returns after its statements -/
inductive CondVal where
  | const (c : Bool)         -- `return c`
  | item (key : String)      -- `return fsm_event_data.get().get(key)`  (truthiness)
  deriving Repr, Inhabited, DecidableEq

inductive BKind where
  | probe      -- scripted block: events a, b (no requirements), need (requires `value`), ping (no-op)
  | input      -- edzed.Input
  | counter    -- edzed.Counter
  | outfunc    -- edzed.OutputFunc: sends on_success / on_error events from inside its handler
  | fsm        -- a table-driven edzed.FSM subclass (states s0, s1, …; scripted entry / exit actions)
  | repeat     -- edzed.Repeat: forwards the event from inside its handler, re-sends it from its main task
  deriving Repr, Inhabited, DecidableEq

/-- the user function of an OutputFunc -/
inductive FuncScript where
  | const (v : Val)     -- `lambda value: v`
  | value               -- `lambda value: value`
  | fail                -- raises RuntimeError
  deriving Repr, Inhabited

structure Blk where
  kind : BKind := .probe
  onOutput : List Edge := []
  onEvery : List Edge := []
  extra : List Edge := []          -- events sent explicitly by the scripts (on_success-like)
  initScript : List Act := []      -- probe: body of `init_regular`
  scriptA : List Act := []
  scriptB : List Act := []
  scriptNeed : List Act := []
  initdef : Val := .undef          -- input / counter
  allowed : Option (List Val) := Option.none    -- input
  cmod : Option Counter.Num := Option.none      -- counter
  func : FuncScript := .value                   -- outfunc
  onSuccess : List Edge := []                   -- outfunc
  onError : List Edge := []                     -- outfunc
  -- fsm: states `0 … nStates-1` (names s0, s1, …), the first state is the default initdef
  nStates : Nat := 1
  trans : List (String × Option Nat × Option Nat) := []   -- EVENTS: (event, from state / any, next state / None)
  enterS : List (List Act) := []                -- enter_STATE callbacks (scripts), by state
  exitS : List (List Act) := []                 -- exit_STATE callbacks
  onEnter : List (List Edge) := []              -- on_enter_STATE events
  onExit : List (List Edge) := []               -- on_exit_STATE events
  onNotrans : List Edge := []
  timed : List (Option (EType × Nat)) := []     -- TIMERS: timed event and duration (0 = zero delay), by state
  conds : List (String × List Act × CondVal) := []   -- fsm: cond_EVENT callbacks (user code: a script, then a value)
  -- repeat: `Repeat(dest=, etype=, count=)`; `_repeated_event = Event(dest, etype)` (no filters)
  rdest : Nat := 0
  retype : EType := .name "put"
  rcount : Option Nat := Option.none
  deriving Repr, Inhabited

structure Circ where
  blocks : List Blk
  deriving Repr, Inhabited

def Circ.n (c : Circ) : Nat := c.blocks.length

def blockName (d : Nat) : String := "b" ++ toString d

/-! ### state -/

/-- `init_steps_completed`: 1 (first pass done, second pending), -2 (second in progress), 2 (done) -/
inductive InitSt where
  | pending | running | done
  deriving Repr, Inhabited, DecidableEq

inductive Phase where
  | init        -- the frame is inside `with self._enable_event: init_sblock(self, full=True)`
  | handler     -- the frame is inside the event handler
  | window      -- the frame's handler (an FSM transition) is inside `with self._enable_event:`
                -- (entry action or start of the timer): the documented chained-transition window
  deriving Repr, Inhabited, DecidableEq

structure Frame where
  blk : Nat
  phase : Phase
  deriving Repr, Inhabited, DecidableEq

inductive TItem where
  | enter (d : Nat) (depth : Nat) (value : Option Val) (win : Nat)
      -- handler of `d` entered; `depth` = handler frames of `d` that are not suspended in a window
      -- (incl. this one), `win` = frames of `d` suspended in the chained-transition window
  | exit (d : Nat) (ok : Bool)                           -- handler left normally / by an exception
  | refused (d : Nat)                                    -- "Forbidden recursive event() call"
  deriving Repr, Inhabited

structure St where
  active : Nat → Bool            -- `_event_active`
  init : Nat → InitSt            -- `init_steps_completed`
  out : Nat → Val                -- `_output`
  error : Option Exc             -- `Circuit._error` (kind)
  stack : List Frame             -- ghost
  trace : List TItem             -- ghost, newest first
  fstate : Nat → Option Nat := fun _ => Option.none      -- `FSM._state` (none = UNDEF)
  fsmActive : Nat → Bool := fun _ => false                -- `FSM._fsm_event_active`
  nextEv : Nat → Option (Nat × Data) := fun _ => Option.none  -- `FSM._next_event` (its new state and its data)
  timer : Nat → Option EType := fun _ => Option.none      -- `FSM._active_timer` (its timed event)
  timersEnabled : Bool := true                            -- `FSM._timers_enabled` (start() … stop())
  rcur : Nat → Option (Data × Nat) := fun _ => Option.none -- Repeat: the data last queued for the main task
                                                          -- and the number of repetitions sent so far

def upd {α : Type} (f : Nat → α) (i : Nat) (v : α) : Nat → α := fun j => if j = i then v else f j

instance : Inhabited St :=
  ⟨{ active := fun _ => false, init := fun _ => .pending, out := fun _ => .undef,
     error := Option.none, stack := [], trace := [] }⟩

/-- `Circuit.abort(exc)`: the first error wins -/
def St.abort (s : St) (e : Exc) : St :=
  match s.error with
  | some _ => s
  | Option.none => { s with error := some e }

/-- number of handler frames of block `d` on a stack -/
def handlerDepth (stk : List Frame) (d : Nat) : Nat :=
  stk.countP (fun f => f.blk == d && f.phase == .handler)

def windowDepth (stk : List Frame) (d : Nat) : Nat :=
  stk.countP (fun f => f.blk == d && f.phase == .window)

def stateName (st : Nat) : String := "s" ++ toString st

/-! ### handler tables -/

abbrev HTable := List (String × List String × List String × Bool)

/-- the probe class of the harness: `_event_a(self, **data)`, `_event_b(self, **data)`,
    `_event_need(self, *, value, **data)`, `_event_ping(self, **data)` -/
def probeHandlers : HTable :=
  [("a", [], [], true), ("b", [], [], true), ("need", ["value"], [], true), ("ping", [], [], true)]

def handlersOf : BKind → HTable
  | .probe => probeHandlers
  | .input => Gen.inputHandlers
  | .counter => Gen.counterHandlers
  | .outfunc => Gen.outputFuncHandlers
  | .fsm => []          -- an FSM class has no `_event_NAME` methods: everything goes to `_event`
  | .repeat => []       -- Repeat has no `_event_NAME` methods either: `Repeat._event`

/-- `type(self)._ct_handlers.get(etype)` for a resolved event type -/
def lookupHandler (k : BKind) : EType → Option (String × List String × List String × Bool)
  | .name s => (handlersOf k).find? (·.1 == s)
  | _ => Option.none

/-- does the call `handler(self, **data)` bind?  (missing required keyword / unexpected keyword) -/
def paramsOk (h : String × List String × List String × Bool) (data : Data) : Bool :=
  h.2.1.all data.has && (h.2.2.2 || data.all (fun p => h.2.1.contains p.1 || h.2.2.1.contains p.1))

/-! ### what a handler can do (parametrised by the recursive call) -/

abbrev Dlv := St → Nat → EType → Data → St × Res

/-- statement sequencing: an exception ends the statement list and propagates -/
def andThen (p : St × Res) (k : St → St × Res) : St × Res :=
  match p.2 with
  | .exc x => (p.1, .exc x)
  | .ret _ => k p.1

/-- `for event in events: event.send(source, **data)` — an exception ends the loop -/
def sendEdges (dlv : Dlv) (src : Nat) : St → List Edge → Data → St × Res
  | s, [], _ => (s, .ret .none)
  | s, e :: es, data =>
    match applyFilters e.filters (data.set "source" (.str (blockName src))) with
    | Option.none => sendEdges dlv src s es data            -- rejected by a filter: `return False`
    | some data' => andThen (dlv s e.dest e.etype data') (fun s1 => sendEdges dlv src s1 es data)

/-- `SBlock.set_output` -/
def setOutput (dlv : Dlv) (b : Blk) (d : Nat) (s : St) (v : Val) : St × Res :=
  if v.isUndef then (s, .exc .valueError)
  else
    let data : Data := [("trigger", .str "output"), ("previous", s.out d), ("value", v)]
    if (s.out d).pyEq v then
      sendEdges dlv d s b.onEvery data
    else
      andThen (sendEdges dlv d { s with out := upd s.out d v } b.onOutput data)
        (fun s2 => sendEdges dlv d s2 b.onEvery data)

/-- `try: … except Exception: pass` around a statement: the handler swallows the exception
    (the model artefact `outOfFuel` is not an exception of the code) -/
def swallow (p : St × Res) : St × Res :=
  match p.2 with
  | .exc .outOfFuel => p
  | .exc _ => (p.1, .ret .none)
  | .ret _ => p

def runAct (dlv : Dlv) (b : Blk) (d : Nat) (s : St) : Act → St × Res
  | .setOut v => setOutput dlv b d s v
  | .send i v =>
    match b.extra[i]? with
    | Option.none => (s, .exc .other)
    | some e => sendEdges dlv d s [e] (match v with | some v => [("value", v)] | Option.none => [])
  | .trySend i v =>
    match b.extra[i]? with
    | Option.none => (s, .exc .other)
    | some e => swallow (sendEdges dlv d s [e] (match v with | some v => [("value", v)] | Option.none => []))
  | .raise => (s, .exc .runtimeError)
  | .rawEvent x et => dlv s x et []

def runActs (dlv : Dlv) (b : Blk) (d : Nat) : St → List Act → St × Res
  | s, [] => (s, .ret .none)
  | s, a :: as => andThen (runAct dlv b d s a) (fun s1 => runActs dlv b d s1 as)

def counterCfg (b : Blk) : Counter.Cfg :=
  ⟨b.cmod, (Counter.Num.ofVal? b.initdef).getD ⟨0, .int⟩⟩

/-- argument of a counter event: `absent`, a number, or something that is not a number -/
def numArg (data : Data) (k : String) : Option (Option Counter.Num) :=
  match data.get? k with
  | Option.none => some Option.none
  | some v => (Counter.Num.ofVal? v).map some

/-- `Input._validate` with `allowed=` -/
def inputAllowed (b : Blk) (v : Val) : Bool :=
  match b.allowed with
  | Option.none => true
  | some l => l.any (fun a => a.pyEq v)

/-- the Counter event as an operation of `Edzed.Counter.step`; `none`: arithmetic on a non-number -/
def counterOp (name : String) (data : Data) : Option Counter.Op :=
  if name == "inc" then (numArg data "amount").map .inc
  else if name == "dec" then (numArg data "amount").map .dec
  else if name == "put" then
    match numArg data "value" with
    | some (some v) => some (.put (some v))
    | _ => Option.none
  else some .reset

/-- the value a Counter event stores and returns (`_setmod`), or the exception it raises -/
def counterResult (b : Blk) (out : Val) (name : String) (data : Data) : Except Exc Val :=
  if name == "put" then
    -- `_setmod(value)`: the current output does not matter
    match data.get? "value" with
    | Option.none => .error .other       -- unreachable: the call does not bind without `value`
    | some v =>
      match Counter.Num.ofVal? v with
      | some n => .ok (Counter.reduce (counterCfg b) n).toVal
      | Option.none => if b.cmod.isNone then .ok v else .error .typeError   -- `value % modulo`
  else if name == "reset" then .ok (Counter.reduce (counterCfg b) (counterCfg b).initdef).toVal
  else
    match Counter.Num.ofVal? out, counterOp name data with
    | some cur, some op =>
      match (Counter.step (counterCfg b) cur op).2 with
      | .ret v => .ok v.toVal
      | .paramError => .error .other
    | _, _ => .error .typeError            -- arithmetic on a non-number raises TypeError

/-- the user function of an OutputFunc: `none` = it raised -/
def funcResult (f : FuncScript) (v : Val) : Option Val :=
  match f with
  | .const r => some r
  | .value => some v
  | .fail => Option.none

/-- `('result', r)` (values are atoms in the scenarios) -/
def resultTuple : Val → Val
  | .atom a => .tup [.str "result", a]
  | _ => .tup [.str "result"]

/-- the handler body, entered after the call has bound its parameters -/
def handlerBody (dlv : Dlv) (b : Blk) (d : Nat) (s : St) (name : String) (data : Data) : St × Res :=
  match b.kind with
  | .probe =>
    if name == "a" then runActs dlv b d s b.scriptA
    else if name == "b" then runActs dlv b d s b.scriptB
    else if name == "need" then runActs dlv b d s b.scriptNeed
    else (s, .ret .none)
  | .input =>
    -- `_event_put`: validate, set_output, return True / False
    match data.get? "value" with
    | Option.none => (s, .exc .other)          -- unreachable: the call does not bind without `value`
    | some v =>
      if !inputAllowed b v then (s, .ret (.bool false))
      else andThen (setOutput dlv b d s v) (fun s1 => (s1, .ret (.bool true)))
  | .counter =>
    -- `_setmod(self._output ± amount)` etc.
    match counterResult b (s.out d) name data with
    | .error x => (s, .exc x)
    | .ok v => andThen (setOutput dlv b d s v) (fun s1 => (s1, .ret v))
  | .outfunc =>
    -- `OutputFunc._event_put`: `args = tuple(data[k] for k in ('value',))` raises KeyError in the handler
    match data.get? "value" with
    | Option.none => (s, .exc .other)
    | some v =>
      match funcResult b.func v with
      | Option.none =>
        -- `except Exception`: on_error events (sent by the handler), return ('error', err)
        andThen (sendEdges dlv d s b.onError [("trigger", .str "error"), ("error", .str "RuntimeError")])
          (fun s1 => (s1, .ret (.tup [.str "error"])))
      | some r =>
        -- AFTER the try statement: on_success events, return ('result', result)
        andThen (sendEdges dlv d s b.onSuccess [("trigger", .str "success"), ("value", r)])
          (fun s1 => (s1, .ret (resultTuple r)))
  | .fsm => (s, .ret .none)       -- not used: `FSM._event` is `fsmEvent` (see `callHandler`)
  | .repeat => (s, .ret .none)    -- not used: `Repeat._event` is `repeatEvent` (see `callHandler`)

/-- `init_regular()` -/
def initRegular (dlv : Dlv) (b : Blk) (d : Nat) (s : St) : St × Res :=
  match b.kind with
  | .probe => runActs dlv b d s b.initScript
  | .outfunc => setOutput dlv b d s (.bool false)
  | .repeat => setOutput dlv b d s (.int 0)        -- `Repeat.init_regular`: `self.set_output(0)`
  | _ => (s, .ret .none)          -- input, counter, fsm: the default `init_regular` does nothing

/-- `init_from_value(initdef)` if the block is still uninitialised and has an initdef -/
def initFromValue (dlv : Dlv) (b : Blk) (d : Nat) (s : St) : St × Res :=
  if b.kind = .fsm then
    -- `FSM.init_from_value(initdef)`: `self.event(Goto(value))`, initdef defaults to the first state
    if (s.out d).isUndef then dlv s d (.goto 0) [] else (s, .ret .none)
  else if (s.out d).isUndef && !b.initdef.isUndef then
    match b.kind with
    | .probe => (s, .ret .none)                                  -- no `init_from_value`
    | .outfunc => (s, .ret .none)
    | .fsm => (s, .ret .none)
    | .repeat => (s, .ret .none)                                 -- no `init_from_value`
    | .input => dlv s d (.name "put") [("value", b.initdef)]    -- `self.event('put', value=value)`
    | .counter => setOutput dlv b d s (Counter.reduce (counterCfg b) (counterCfg b).initdef).toVal
  else (s, .ret .none)

/-- second step of `Circuit.init_sblock`: `init_regular`, then `init_from_value(initdef)` if the
    block is still uninitialised.  An exception leaves `init_steps_completed` at -2. -/
def initBlock (dlv : Dlv) (b : Blk) (d : Nat) (s : St) : St × Res :=
  andThen (initRegular dlv b d { s with init := upd s.init d .running }) fun s2 =>
  andThen (initFromValue dlv b d s2) fun s3 =>
  ({ s3 with init := upd s3.init d .done }, .ret .none)

/-! ### `SBlock.event` -/

/-- classification in the `except` clauses around the handler call -/
def classify (s : St) : Res → St
  | .exc .unknownEvent => s                 -- `except EdzedUnknownEvent: raise`
  | .exc .outOfFuel => s
  | .exc _ => s.abort .circuitError         -- error inside the handler: `circuit.abort(sim_err)`; `raise`
  | .ret _ => s

/-- the early initialisation of a destination whose second initialisation step is pending:
    `with self._enable_event: self.circuit.init_sblock(self, full=True)` -/
def earlyInit (dlv : Dlv) (b : Blk) (d : Nat) (stk0 : List Frame) (s1 : St) : St × Res :=
  if s1.init d = .pending then
    -- `_enable_event.__enter__`
    let saved := s1.active d
    let s2 := { s1 with active := upd s1.active d false, stack := ⟨d, .init⟩ :: stk0 }
    let p := initBlock dlv b d s2
    -- `_enable_event.__exit__` (runs on every outcome)
    ({ p.1 with active := upd p.1.active d saved, stack := stk0 }, p.2)
  else (s1, Res.ret .none)

/-! ### `FSM._ctx_event` -/

inductive FsmTarget where
  | to (st : Nat)
  | notrans
  | unknown        -- EdzedUnknownEvent
  | badState       -- `_check_state`: ValueError
  | uninit         -- `assert self._state is not UNDEF`
  deriving Repr, DecidableEq

def transTarget (t : String × Option Nat × Option Nat) : FsmTarget :=
  match t.2.2 with
  | some n => .to n
  | Option.none => .notrans

/-- the new state of an event: Goto, the rule for the current state, else the any-state rule -/
def fsmTarget (b : Blk) (cur : Option Nat) : EType → FsmTarget
  | .goto st => if st < b.nStates then .to st else .badState
  | .name ev =>
    if !b.trans.any (fun t => t.1 == ev) then .unknown
    else match cur with
      | Option.none => .uninit
      | some c =>
        match b.trans.find? (fun t => t.1 == ev && t.2.1 == some c) with
        | some t => transTarget t
        | Option.none =>
          match b.trans.find? (fun t => t.1 == ev && t.2.1 == Option.none) with
          | some t => transTarget t
          | Option.none => .notrans
  | _ => .unknown

/-- data of on_enter / on_exit events (the item `sdata`, a dict, is left out) -/
def fsmData (trigger : String) (st : Nat) (out : Val) : Data :=
  [("trigger", .str trigger), ("state", .str (stateName st)), ("value", out)]

inductive WinBody where
  | enter (st : Nat)         -- `self._run_cb('enter', state)`
  | startTimer (st : Nat) (duration : Option Val)   -- `self._start_timer(data.get('duration'), timed_event)`

/-- the duration `_start_timer` works with: the `duration` item of the event that caused the transition
    overrides the state's default (`None` / absent: the default); only "zero delay or not" matters here
    (numbers; other values – strings with units, INF_TIME – are outside the scenarios) -/
def effDuration (duration : Option Val) (dflt : Nat) : Nat :=
  match duration with
  | some (.atom (.num q _)) => if q ≤ 0 then 0 else 1
  | _ => dflt

/-- what runs inside the window: the entry action, or `_start_timer` -/
def winBody (dlv : Dlv) (b : Blk) (d : Nat) (s1 : St) : WinBody → St × Res
  | .enter st => runActs dlv b d s1 (b.enterS.getD st [])
  | .startTimer st duration =>
    match b.timed.getD st Option.none with
    | Option.none => (s1, .ret .none)
    | some (ev, dur) =>
      if effDuration duration dur = 0 then dlv s1 d ev []                -- zero delay: `self.event(timed_event)`
      else if s1.timersEnabled then ({ s1 with timer := upd s1.timer d (some ev) }, .ret .none)
      else (s1, .ret .none)

/-- `with self._enable_event: …` inside a transition: the guard is released, the frame is marked -/
def fsmWindow (dlv : Dlv) (b : Blk) (d : Nat) (stk0 : List Frame) (s : St) (wb : WinBody) : St × Res :=
  let saved := s.active d
  let p := winBody dlv b d { s with active := upd s.active d false, stack := ⟨d, .window⟩ :: stk0 } wb
  ({ p.1 with active := upd p.1.active d saved, stack := ⟨d, .handler⟩ :: stk0 }, p.2)

/-- start of a loop iteration: a parked request is unpacked (`_next_event = None`), then the
    intermediate state is left with its exit callback only (no events) -/
def chainExit (dlv : Dlv) (b : Blk) (d : Nat) (s : St) (chained : Bool) : St × Res :=
  let sc := { s with nextEv := upd s.nextEv d Option.none }
  if chained then
    match sc.fstate d with
    | some cur => runActs dlv b d sc (b.exitS.getD cur [])
    | Option.none => (sc, .ret .none)
  else (sc, .ret .none)

/-- the `for _ in range(chainlimit)` loop; `chained` = this iteration executes a parked request -/
def fsmChain (dlv : Dlv) (b : Blk) (d : Nat) (stk0 : List Frame) : Nat → St → Bool → Nat → Data → St × Res
  | 0, s, _, _, _ => (s, .exc .circuitError)        -- 'Chained state transition limit reached'
  | k + 1, s, chained, ns, data =>
    andThen (chainExit dlv b d s chained) fun s0 =>
    andThen (fsmWindow dlv b d stk0 { s0 with fstate := upd s0.fstate d (some ns) } (.enter ns)) fun s2 =>
    match s2.nextEv d with
    | some nx => fsmChain dlv b d stk0 k s2 true nx.1 nx.2     -- `etype, data, newstate = self._next_event`
    | Option.none =>
      match b.timed.getD ns Option.none with
      | Option.none => (s2, .ret .none)
      | some _ =>
        andThen (fsmWindow dlv b d stk0 s2 (.startTimer ns (data.get? "duration"))) fun s3 =>
        match s3.nextEv d with
        | some nx => fsmChain dlv b d stk0 k s3 true nx.1 nx.2
        | Option.none => (s3, .ret .none)

/-- leaving the current state (only when the FSM is initialised): exit callback, on_exit events,
    `_stop_timer` -/
def fsmLeave (dlv : Dlv) (b : Blk) (d : Nat) (s : St) : St × Res :=
  if (s.out d).isUndef then (s, .ret .none) else
  match s.fstate d with
  | Option.none => (s, .ret .none)
  | some cur =>
    andThen (runActs dlv b d s (b.exitS.getD cur [])) fun s1 =>
    andThen (sendEdges dlv d s1 (b.onExit.getD cur []) (fsmData "exit" cur (s1.out d))) fun s2 =>
    ({ s2 with timer := upd s2.timer d Option.none }, .ret .none)

/-- `calc_output()` = the state; `set_output`; on_enter events; `return True` -/
def fsmFinish (dlv : Dlv) (b : Blk) (d : Nat) (s : St) : St × Res :=
  match s.fstate d with
  | Option.none => (s, .ret .none)
  | some st =>
    andThen (setOutput dlv b d s (.str (stateName st))) fun s5 =>
    andThen (sendEdges dlv d s5 (b.onEnter.getD st []) (fsmData "enter" st (s5.out d))) fun s6 =>
    (s6, .ret (.bool true))

/-- the transition proper (the body of the `try` in `_ctx_event`) -/
def fsmTransition (dlv : Dlv) (b : Blk) (d : Nat) (stk0 : List Frame) (s : St) (ns : Nat) (data : Data) :
    St × Res :=
  andThen (fsmLeave dlv b d s) fun s3 =>
  -- `assert self._next_event is None` (a request left over by a transition that hit the chain limit)
  if (s3.nextEv d).isSome then (s3, .exc .other) else
  andThen (fsmChain dlv b d stk0 (3 * b.nStates) s3 false ns data) fun s4 =>
  fsmFinish dlv b d s4

def CondVal.eval : CondVal → Data → Bool
  | .const c, _ => c
  | .item k, data => match data.get? k with | some v => v.truthy | Option.none => false

/-- `self.is_initialized() and not all(self._run_cb('cond', etype))` for a named event with a transition:
    the `cond_EVENT` callback is user code – it runs INSIDE the handler, the guard of the FSM set, before
    `_fsm_event_active` is looked at; whatever it sends is an ordinary nested delivery; its exception leaves
    the handler.  The result is `ret True` (go on) or `ret False` (event rejected). -/
def fsmCond (dlv : Dlv) (b : Blk) (d : Nat) (s : St) (et : EType) (data : Data) : St × Res :=
  match et with
  | .name ev =>
    if (s.out d).isUndef then (s, .ret (.bool true)) else     -- not initialised: conditions are not consulted
    match b.conds.find? (·.1 == ev) with
    | Option.none => (s, .ret (.bool true))
    | some c => andThen (runActs dlv b d s c.2.1) fun s1 => (s1, .ret (.bool (c.2.2.eval data)))
  | _ => (s, .ret (.bool true))                              -- Goto: no conditions

/-- an accepted event: parked when a transition of this FSM is in progress, executed otherwise -/
def fsmAccept (dlv : Dlv) (b : Blk) (d : Nat) (stk0 : List Frame) (s : St) (ns : Nat) (data : Data) :
    St × Res :=
  if s.fsmActive d then
    -- a request made while a transition is in progress (only possible through the window)
    match s.nextEv d with
    | some _ => (s, .exc .circuitError)          -- 'Forbidden event multiplication'
    | Option.none => ({ s with nextEv := upd s.nextEv d (some (ns, data)) }, .ret (.bool true))
  else
    let p := fsmTransition dlv b d stk0 { s with fsmActive := upd s.fsmActive d true } ns data
    -- finally:
    ({ p.1 with fsmActive := upd p.1.fsmActive d false }, p.2)

/-- `FSM._event` / `_ctx_event` -/
def fsmEvent (dlv : Dlv) (b : Blk) (d : Nat) (stk0 : List Frame) (s : St) (et : EType) (data : Data) :
    St × Res :=
  match fsmTarget b (s.fstate d) et with
  | .unknown => (s, .exc .unknownEvent)
  | .badState => (s, .exc .valueError)
  | .uninit => (s, .exc .other)
  | .notrans =>
    andThen (sendEdges dlv d s b.onNotrans [("trigger", .str "notrans"), ("state", .str "")])
      (fun s1 => (s1, .ret (.bool false)))
  | .to ns =>
    let p := fsmCond dlv b d s et data
    match p.2 with
    | .exc x => (p.1, .exc x)
    | .ret v =>
      if v.truthy then fsmAccept dlv b d stk0 p.1 ns data
      else (p.1, .ret (.bool false))           -- 'condition not satisfied': the event is rejected

/-! ### `Repeat._event` and the re-sending main task (edzed/blocklib/sblocks1.py)

The timing of the repetitions is the subject of C18 (EdzedModel/Repeat.lean); here only the call
structure matters: the received event is forwarded SYNCHRONOUSLY, from inside the block's own handler
("in order not to conceal a possible forbidden loop"), and only then queued for the main task; the
repetitions are sent by the main task, outside of any handler. -/

/-- `self._repeated_event = Event(dest, etype)`: no filters -/
def repeatEdge (b : Blk) : Edge := ⟨b.rdest, b.retype, []⟩

/-- `data['orig_source'] = data.get('source')` -/
def withOrigSource (data : Data) : Data := data.set "orig_source" ((data.get? "source").getD .none)

/-- `{**data, 'repeat': n}` -/
def withRepeat (data : Data) (n : Nat) : Data := data.set "repeat" (.int n)

/-- `Repeat._event(etype, data)`: another type is ignored (logged once); else `orig_source`,
    `set_output(0)`, the synchronous forward with `repeat=0`, and – only when that returned –
    `self._queue.put_nowait(data)` -/
def repeatEvent (dlv : Dlv) (b : Blk) (d : Nat) (s : St) (et : EType) (data : Data) : St × Res :=
  if et != b.retype then (s, .ret .none)
  else
    andThen (setOutput dlv b d s (.int 0)) fun s1 =>
    andThen (sendEdges dlv d s1 [repeatEdge b] (withRepeat (withOrigSource data) 0)) fun s2 =>
    ({ s2 with rcur := upd s2.rcur d (some (withOrigSource data, 0)) }, .ret .none)

/-- the handler's frame: entry, body, exit (normally or by an exception), classification -/
def inHandler (d : Nat) (stk0 : List Frame) (s3 : St) (data : Data) (body : St → St × Res) : St × Res :=
  let s4 := { s3 with stack := ⟨d, .handler⟩ :: stk0,
                      trace := .enter d (handlerDepth stk0 d + 1) (data.get? "value") (windowDepth stk0 d) :: s3.trace }
  let p := body s4
  let s6 := { p.1 with stack := stk0,
                       trace := .exit d (match p.2 with | .ret _ => true | .exc _ => false) :: p.1.trace }
  (classify s6 p.2, p.2)

/-- handler lookup, the call, classification of its outcome -/
def callHandler (dlv : Dlv) (b : Blk) (d : Nat) (stk0 : List Frame) (s3 : St) (et' : EType)
    (data : Data) : St × Res :=
  if b.kind = .fsm then
    -- no specialised handlers: `self._event(etype, data)`
    inHandler d stk0 s3 data (fun s4 => fsmEvent dlv b d stk0 s4 et' data)
  else if b.kind = .repeat then
    -- no specialised handlers either: `Repeat._event(etype, data)`
    inHandler d stk0 s3 data (fun s4 => repeatEvent dlv b d s4 et' data)
  else
  match lookupHandler b.kind et' with
  | Option.none => (s3, .exc .unknownEvent)       -- `self._event()` raises; re-raised, no abort
  | some h =>
    if !paramsOk h data then (s3, .exc .typeError)   -- the call itself fails: caller only
    else inHandler d stk0 s3 data (fun s4 => handlerBody dlv b d s4 h.1 data)

/-- the body of the `try` statement of `SBlock.event` -/
def eventBody (dlv : Dlv) (b : Blk) (d : Nat) (stk0 : List Frame) (s1 : St) (et : EType)
    (data : Data) : St × Res :=
  let et' := et.resolve (dataTruthy data)
  if et' = .none then (s1, .ret .none)            -- conditional event -> no event
  else
    -- an exception of the initialisation is not inside the inner `try`: no classification
    andThen (earlyInit dlv b d stk0 s1) (fun s3 => callHandler dlv b d stk0 s3 et' data)

def deliver (c : Circ) : Nat → St → Nat → EType → Data → St × Res
  | 0, s, _, _, _ => (s, .exc .outOfFuel)
  | fuel + 1, s, d, et, data =>
    match c.blocks[d]? with
    | Option.none => (s, .exc .other)                 -- `findblock` fails
    | some b =>
    match et.check with
    | some x => (s, .exc x)                           -- type checks precede the guard
    | Option.none =>
    if s.active d then
      -- `exc = EdzedCircuitError("Forbidden recursive event() call"); self.circuit.abort(exc); raise exc`
      -- (outside of the `try`; the simulation is stopped here, whoever catches the exception)
      ({ s.abort .circuitError with trace := .refused d :: s.trace }, .exc .circuitError)
    else
      let s1 := { s with active := upd s.active d true }
      -- try:
      let p := eventBody (deliver c fuel) b d s.stack s1 et data
      -- finally:
      ({ p.1 with active := upd p.1.active d false }, p.2)

/-! ### top level -/

/-- enough fuel for every circuit state (`fuel_suffices`) -/
def Circ.fuel (c : Circ) : Nat := 3 * c.n + 1

/-- `ExtEvent(dest, etype).send(**data)` -/
def extSend (c : Circ) (s : St) (d : Nat) (name : String) (data : Data) : St × Res :=
  if s.error.isSome then (s, .exc .invalidState)        -- `is_ready()` is false
  else deliver c c.fuel s d (.name name) (if data.has "source" then data else data.set "source" (.str "_ext_"))

/-- a direct call `blk.event(etype, **data)` from outside of any handler -/
def rawSend (c : Circ) (s : St) (d : Nat) (et : EType) (data : Data) : St × Res :=
  deliver c c.fuel s d et data

/-- the timer of FSM `d` fires: `_timer_expired` = `self._active_timer = None; self.event(timed_event)` -/
def tick (c : Circ) (s : St) (d : Nat) : Option (St × Res) :=
  match s.timer d with
  | Option.none => Option.none
  | some ev =>
    -- `_timer_expired` returns nothing; an exception goes to the event loop
    some (andThen (deliver c c.fuel { s with timer := upd s.timer d Option.none } d ev [])
      (fun s1 => (s1, .ret .none)))

/-- `self._count is None or repeat < self._count` -/
def repeatGoesOn (b : Blk) (rep : Nat) : Bool :=
  match b.rcount with
  | Option.none => true
  | some n => rep < n

/-- what the main task does at a timeout (`Gen.TrR.maintaskIter`, `.timeout true`): `repeat += 1`,
    `self.set_output(repeat)`, `self._repeated_event.send(self, **{**data, 'repeat': repeat})`
    – called from the task, i.e. from OUTSIDE of any handler -/
def resendBody (dlv : Dlv) (b : Blk) (d : Nat) (s : St) (data : Data) (rep : Nat) : St × Res :=
  andThen (setOutput dlv b d { s with rcur := upd s.rcur d (some (data, rep)) } (.int rep)) fun s1 =>
  sendEdges dlv d s1 [repeatEdge b] (withRepeat data rep)

/-- an exception in the main task ends it; `AddonAsync._task_monitor` passes the exception itself
    to `Circuit.abort` (the first error wins: an error inside a handler has aborted already) -/
def taskOutcome (d : Nat) (p : St × Res) : St × Res :=
  match p.2 with
  | .exc .outOfFuel => p
  | .exc x => ({ p.1.abort x with rcur := upd p.1.rcur d Option.none }, .exc x)
  | .ret _ => (p.1, .ret .none)

/-- one repetition by the main task of Repeat block `d` (the instant is the implementation's: C18);
    `none`: the block is not repeating anything (nothing queued, or `count` exhausted) -/
def resend (c : Circ) (s : St) (d : Nat) : Option (St × Res) :=
  match c.blocks[d]?, s.rcur d with
  | some b, some (data, rep) =>
    if b.kind = .repeat && repeatGoesOn b rep then
      some (taskOutcome d (resendBody (deliver c c.fuel) b d s data (rep + 1)))
    else Option.none
  | _, _ => Option.none

/-- the simulation task has ended: `FSM.stop()` for every block (timers cancelled and disabled),
    `AddonMainTask.stop_async` (the main tasks are cancelled: nothing is repeated any more) -/
def stopAll (s : St) : St :=
  { s with timer := fun _ => Option.none, timersEnabled := false, rcur := fun _ => Option.none }

/-- the loop of `_init_sblocks_sync_2` over the blocks `ds` -/
def initLoop (c : Circ) : St → List Nat → St × Res
  | s, [] => (s, .ret .none)
  | s, d :: ds =>
    match c.blocks[d]? with
    | Option.none => (s, .exc .other)
    | some b =>
      if s.init d = .pending then
        andThen (initBlock (deliver c c.fuel) b d s) (fun s1 => initLoop c s1 ds)
      else initLoop c s ds

/-- `_init_sblocks_sync_2` as called from `run_forever`: an exception becomes `Circuit._error`
    (if `abort` has not set it already); afterwards every block must be initialised -/
def initAll (c : Circ) (s : St) : St × Res :=
  match initLoop c s (List.range c.n) with
  | (s1, .exc x) => (s1.abort x, .exc x)
  | (s1, .ret _) =>
    if (List.range c.n).all (fun d => !(s1.out d).isUndef) then (s1, .ret .none)
    else (s1.abort .circuitError, .exc .circuitError)

/-- the start-up as seen from outside: when it fails, `run_forever` stops all blocks and ends -/
def startUp (c : Circ) (s : St) : St × Res :=
  let p := initAll c s
  if p.1.error.isSome then (stopAll p.1, p.2) else p

/-- state of a finalized circuit after the first initialisation pass -/
def St.start : St := default

end Edzed.Dispatch
