/-
Model of value validation in `edzed.Input` and `edzed.InputExp`
(edzed/blocklib/sblocks2.py: `_Validation._validate`, `Input.__init__/_event_put/
init_from_value/_restore_state`, `InputExp.__init__/cond_put/calc_output`;
edzed/simulator.py `init_sblock`; edzed/block.py `SBlock.set_output`).

The user's validators are arbitrary functions: `check : Val → Val` (the result is tested for
truthiness), `schema : Val → Except Exc Val` (`.error k` = the schema raised an exception of
class `k`; `_validate` turns ANY `Exception` into a refusal, so the class is never looked at).  `allowed` is a list of
values turned into a `frozenset` by the constructor.  Every validation also yields the list of
calls of user code it made, in order, so that "schema last" is a statement about the model.

The model mirrors the code WITH the repair `patches/C17-allowed-unhashable.diff` applied:
an unhashable value is "not among the allowed values" (the unrepaired code lets the TypeError
of `value not in frozenset` escape from the event handler, which aborts the simulation).
-/
import EdzedModel.Basic.Val

namespace Edzed.Validate

/-- classes of exceptions a schema function may raise (`custom` = any other subclass of
    `Exception`, e.g. a validation library's own error) -/
inductive Exc where
  | valueError | typeError | keyError | zeroDivisionError | attributeError | custom
  deriving DecidableEq, Repr, Inhabited

/-- the three optional validators of `_Validation.__init__`; `allowed` is the constructor's own
    `frozenset(allowed)` COPY of the caller's collection -/
structure Cfg where
  allowed : Option (List Val)
  check : Option (Val → Val)
  schema : Option (Val → Except Exc Val)

/-- a call of user code made by `_validate` -/
inductive Call where
  | check (v : Val)
  | schema (v : Val)
  deriving DecidableEq, Repr, Inhabited

/-- `value in frozenset(allowed)` with the repair: an unhashable value is in no set;
    for hashable values of the domain equal values have equal hashes, so membership is `==` -/
def inAllowed (l : List Val) (v : Val) : Bool :=
  v.hashable && l.any (fun a => v.pyEq a)

/-- third stage: `value = self._schema(value)`; `except Exception` – an exception of whatever
    class becomes the ValueError of a refusal -/
def schemaStage (c : Cfg) (v : Val) : Option Val × List Call :=
  match c.schema with
  | none => (some v, [])
  | some s => ((s v).toOption, [.schema v])

/-- second stage: `not self._check(value)` raises ValueError -/
def checkStage (c : Cfg) (v : Val) : Option Val × List Call :=
  match c.check with
  | none => schemaStage c v
  | some f =>
    if (f v).truthy then ((schemaStage c v).1, .check v :: (schemaStage c v).2)
    else (none, [.check v])

/-- `_validate`: result (`none` = ValueError) and the calls of user code made -/
def validateT (c : Cfg) (v : Val) : Option Val × List Call :=
  match c.allowed with
  | none => checkStage c v
  | some l => if inAllowed l v then checkStage c v else (none, [])

def validate (c : Cfg) (v : Val) : Option Val := (validateT c v).1

def calls (c : Cfg) (v : Val) : List Call := (validateT c v).2

/-! ### Input -/

/-- `SBlock.set_output`: a value that compares equal to the current output leaves the
    stored object untouched (`UNDEF` equals nothing but itself) -/
def store (out w : Val) : Val := if out.pyEq w then out else w

inductive Res where
  | ret (accepted : Bool)   -- the handler's return value
  | abort                   -- `set_output(UNDEF)` raised inside the handler: simulation aborted
  deriving DecidableEq, Repr, Inhabited

structure PutOut where
  out : Val
  res : Res
  calls : List Call

/-- `Input._event_put` on an Input whose output is `out` -/
def put (c : Cfg) (out v : Val) : PutOut :=
  match validate c v with
  | none => ⟨out, .ret false, calls c v⟩
  | some w => if w.isUndef then ⟨out, .abort, calls c v⟩ else ⟨store out w, .ret true, calls c v⟩

/-- the output after a sequence of puts (an aborting put changes nothing; in reality nothing
    follows it) -/
def run (c : Cfg) (out : Val) (vs : List Val) : Val :=
  vs.foldl (fun o v => (put c o v).out) out

inductive CtorErr where
  | typeError      -- `frozenset(allowed)` with an unhashable member
  | valueError     -- initdef / expired refused by `_validate`
  deriving DecidableEq, Repr, Inhabited

def Cfg.allowedHashable (c : Cfg) : Bool :=
  match c.allowed with
  | none => true
  | some l => l.all Val.hashable

/-- `Input.__init__`: an initdef other than UNDEF must pass `_validate` (the result is dropped) -/
def construct (c : Cfg) (initdef : Val) : Except CtorErr Unit × List Call :=
  if !c.allowedHashable then (.error .typeError, [])
  else if initdef.isUndef then (.ok (), [])
  else match validate c initdef with
    | none => (.error .valueError, calls c initdef)
    | some _ => (.ok (), calls c initdef)

inductive InitRes where
  | ok (out : Val)
  | notInitialized          -- the simulator refuses to start: "not initialized"
  | abort
  deriving DecidableEq, Repr, Inhabited

/-- the restoring put of `init_sblock` step 1 (`_restore_state = init_from_value`) -/
def restorePut (c : Cfg) (restored : Option Val) : PutOut :=
  match restored with
  | none => ⟨.undef, .ret false, []⟩
  | some r => put c .undef r

/-- step 2: `init_from_value(initdef)` if the block is still uninitialised and has an initdef -/
def initdefPut (c : Cfg) (out initdef : Val) : PutOut :=
  if out.isUndef && !initdef.isUndef then put c out initdef else ⟨out, .ret false, []⟩

/-- `init_sblock` for an Input: the saved state (if the block is persistent and a state was
    saved) goes through `put`, then the initdef if the output is still UNDEF; finally the
    simulator insists on an initialised block -/
def init (c : Cfg) (restored : Option Val) (initdef : Val) : InitRes × List Call :=
  let p1 := restorePut c restored
  let p2 := initdefPut c p1.out initdef
  let r := if p1.res == .abort || p2.res == .abort then InitRes.abort
           else if p2.out.isUndef then InitRes.notInitialized
           else InitRes.ok p2.out
  (r, p1.calls ++ p2.calls)

/-! ### InputExp -/

structure ExpCfg where
  v : Cfg
  duration : Option Nat   -- t_valid, in the unit of `now`; `none` = infinite (no timer is started)
  expired : Val           -- `self._expired`: the VALIDATED (converted) expired value

inductive St where
  | valid | expired
  deriving DecidableEq, Repr, Inhabited

structure ExpState where
  st : St
  input : Option Val      -- `sdata['input']`
  out : Val
  now : Nat
  deadline : Option Nat   -- the running timer of state 'valid'
  deriving DecidableEq, Repr, Inhabited

/-- `InputExp.__init__`: the initdef (when given) is validated first and its converted value
    kept, then the expired value (default None!) likewise -/
def constructExp (c : Cfg) (initdef expired : Val) :
    Except CtorErr (Option Val × Val) × List Call :=
  if !c.allowedHashable then (.error .typeError, [])
  else
    let i : Option (Option Val) × List Call :=
      if initdef.isUndef then (some none, [])
      else match validate c initdef with
        | none => (none, calls c initdef)
        | some w => (some (some w), calls c initdef)
    match i.1 with
    | none => (.error .valueError, i.2)
    | some inp =>
      match validate c expired with
      | none => (.error .valueError, i.2 ++ calls c expired)
      | some e => (.ok (inp, e), i.2 ++ calls c expired)

/-- FSM: `calc_output()` returning UNDEF leaves the output alone, otherwise `set_output` -/
def setOut (out w : Val) : Val := if w.isUndef then out else store out w

/-- `calc_output` -/
def calcOutput (e : ExpCfg) (st : St) (input : Option Val) : Val :=
  match st with
  | .valid => input.getD .undef
  | .expired => e.expired

/-- initialisation: `Goto('valid')` when an initial value was given, else `Goto('expired')`;
    `none` = the block has no output afterwards and the simulator refuses to start -/
def initExp (e : ExpCfg) (inp : Option Val) : Option ExpState :=
  match inp with
  | some w =>       -- Goto('valid'): output := sdata['input'], timer started
    if w.isUndef then none else some ⟨.valid, some w, w, 0, e.duration⟩
  | none =>         -- Goto('expired'): output := the expired value
    if e.expired.isUndef then none else some ⟨.expired, none, e.expired, 0, none⟩

/-- what `FSM.get_state` saved for an InputExp: the state, the time the timer still had to run at
    the moment of the restart (`none` = no timer was running, `≤ 0` = overdue) and `sdata['input']` -/
structure SavedExp where
  st : St
  remaining : Option Int
  input : Option Val
  deriving DecidableEq, Repr, Inhabited

inductive RestoreRes where
  | restored (s : ExpState)
  | ignored                 -- `FSM._restore_state` returned without restoring (overdue timer)
  | failed                  -- an exception: `init_from_persistent_data` logs it
  deriving DecidableEq, Repr, Inhabited

/-- `FSM._restore_state` as far as an InputExp is concerned: an overdue state is ignored, a
    timestamp on the untimed state 'expired' is an error, otherwise timer, state and sdata are
    taken over and the output is set from `calc_output` -/
def fsmRestore (e : ExpCfg) (sv : SavedExp) : RestoreRes :=
  let go (deadline : Option Nat) : RestoreRes :=
    match sv.st, sv.input with
    | .valid, none => .failed                               -- calc_output: KeyError
    | st, input => .restored ⟨st, input, setOut .undef (calcOutput e st input), 0, deadline⟩
  match sv.remaining with
  | none => go none
  | some r =>
    if r ≤ 0 then .ignored
    else match sv.st with
      | .expired => .failed                                 -- cannot set a timer for a not timed state
      | .valid => go (some r.toNat)

/-- `InputExp._restore_state` (with patches/C17-inputexp-restore-unvalidated.diff): the saved value of
    a 'valid' state passes through `_validate` BEFORE the FSM restores anything (no timer is armed
    for a refused state); what is kept is the converted value, as in `Input._restore_state` -/
def restoreExp (e : ExpCfg) (sv : SavedExp) : RestoreRes × List Call :=
  match sv.st with
  | .expired => (fsmRestore e sv, [])
  | .valid =>
    match sv.input with
    | none => (.failed, [])                                 -- sdata['input']: KeyError
    | some v =>
      match validate e.v v with
      | none => (.failed, calls e.v v)                      -- ValueError
      | some w => (fsmRestore e { sv with input := some w }, calls e.v v)

/-- start-up of a (persistent) InputExp: the saved state if there is one and it can be restored,
    otherwise – refused, overdue, broken – the regular initialisation -/
def startExp (e : ExpCfg) (inp : Option Val) (saved : Option SavedExp) : Option ExpState × List Call :=
  match saved with
  | none => (initExp e inp, [])
  | some sv =>
    match restoreExp e sv with
    | (.restored s, cl) => (if s.out.isUndef then initExp e inp else some s, cl)
    | (_, cl) => (initExp e inp, cl)

/-- event `put`: `cond_put` validates; a refusal leaves everything (also the timer) alone,
    an accepted value is kept in `sdata`, the state becomes 'valid' and the timer restarts -/
def putExp (e : ExpCfg) (s : ExpState) (v : Val) : ExpState × Bool × List Call :=
  match validate e.v v with
  | none => (s, false, calls e.v v)
  | some w =>
    ({ s with st := .valid, input := some w, deadline := e.duration.map (s.now + ·),
              out := setOut s.out (calcOutput e .valid (some w)) }, true, calls e.v v)

/-- the timer of state 'valid' fired: `Goto('expired')` -/
def expire (e : ExpCfg) (s : ExpState) : ExpState :=
  { s with st := .expired, deadline := none, out := setOut s.out (calcOutput e .expired s.input) }

/-- time passes -/
def wait (e : ExpCfg) (s : ExpState) (d : Nat) : ExpState :=
  let s' := { s with now := s.now + d }
  match s.deadline with
  | some dl => if dl ≤ s.now + d then expire e s' else s'
  | none => s'

inductive ExpOp where
  | put (v : Val)
  | wait (d : Nat)
  deriving Repr, Inhabited

def stepExp (e : ExpCfg) (s : ExpState) : ExpOp → ExpState
  | .put v => (putExp e s v).1
  | .wait d => wait e s d

def runExp (e : ExpCfg) (s : ExpState) (ops : List ExpOp) : ExpState :=
  ops.foldl (stepExp e) s

/-- the value part as the documentation sees it: defined while the state is 'valid' -/
def ExpState.value (s : ExpState) : Option Val :=
  match s.st with
  | .valid => s.input
  | .expired => none

/-! ### the caller's collection

`allowed=` may be any collection, also a mutable one (a `set`, a `list`, the keys of a `dict`) that
the caller goes on using – clearing and refilling one scratch set for several blocks, say.  The
constructor takes a snapshot (`frozenset(allowed)`): the block's `Cfg.allowed` is a value, the
caller's object lives on beside it and is NOT an input of `validate`. -/

/-- what the caller may do with its own collection afterwards -/
inductive Mut where
  | clear
  | add (v : Val)
  | remove (v : Val)
  deriving Repr, Inhabited

/-- a Python `set` as a duplicate-free list -/
def callerMutate (coll : List Val) : Mut → List Val
  | .clear => []
  | .add v => if coll.any (fun a => a.pyEq v) then coll else coll ++ [v]
  | .remove v => coll.filter (fun a => !a.pyEq v)

/-- an Input together with the collection object its `allowed` was built from -/
structure World where
  cfg : Cfg
  out : Val
  caller : Option (List Val)

/-- right after the constructor: the block owns a copy of the contents -/
def World.new (allowed : Option (List Val)) (check : Option (Val → Val))
    (schema : Option (Val → Except Exc Val)) : World :=
  ⟨⟨allowed, check, schema⟩, .undef, allowed⟩

def World.put (w : World) (v : Val) : World × Res × List Call :=
  let p := Validate.put w.cfg w.out v
  ({ w with out := p.out }, p.res, p.calls)

def World.mutate (w : World) (m : Mut) : World :=
  { w with caller := w.caller.map (fun l => callerMutate l m) }

inductive WOp where
  | put (v : Val)
  | mutate (m : Mut)
  deriving Repr, Inhabited

def World.step (w : World) : WOp → World
  | .put v => (w.put v).1
  | .mutate m => w.mutate m

def World.run (w : World) (ops : List WOp) : World := ops.foldl World.step w

/-- an InputExp together with the caller's collection -/
structure ExpWorld where
  e : ExpCfg
  s : ExpState
  caller : Option (List Val)

def ExpWorld.put (w : ExpWorld) (v : Val) : ExpWorld × Bool × List Call :=
  let r := putExp w.e w.s v
  ({ w with s := r.1 }, r.2.1, r.2.2)

def ExpWorld.wait (w : ExpWorld) (d : Nat) : ExpWorld := { w with s := Validate.wait w.e w.s d }

def ExpWorld.mutate (w : ExpWorld) (m : Mut) : ExpWorld :=
  { w with caller := w.caller.map (fun l => callerMutate l m) }

inductive EWOp where
  | op (o : ExpOp)
  | mutate (m : Mut)
  deriving Repr, Inhabited

def ExpWorld.step (w : ExpWorld) : EWOp → ExpWorld
  | .op (.put v) => (w.put v).1
  | .op (.wait d) => w.wait d
  | .mutate m => w.mutate m

def ExpWorld.run (w : ExpWorld) (ops : List EWOp) : ExpWorld := ops.foldl ExpWorld.step w

end Edzed.Validate
