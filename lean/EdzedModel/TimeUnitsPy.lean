/-
The declared primitives of the translation of `edzed/utils/timeunits.py`
(`tools/py2lean_timeunits.py` → `Gen/TranslatedTimeUnits.lean`): what a Python built-in, a method of
`str`/`re`, or a format specification MEANS in the exact-rational value domain of
`EdzedModel/TimeUnits.lean`.  Statement order, conditions, loops, early exits and call arguments of the
translated functions come from the Python AST; only these leaves are declared here.

* numbers are exact rationals; an `int` / `float` distinction that the code tests with `isinstance`
  travels with the value as a `Bool` (`true` = float);
* `round(x, n)` on a float is round-half-even to `n` places on the exact value (`roundTo`), `round(x)` is
  `roundHalfEven`; `'%.nf'` is `pyFormatFixed` – the float rounding itself is not modelled (as everywhere
  in C19: floats are the exact rational of the double, CPython's `round`/format are correctly rounded);
  the meaning is the one for non-negative arguments (all three functions refuse negative numbers first);
* `PATTERN.fullmatch(s)` is the model's matcher (`matchTrad` / `matchIso`), `match.groups()` the tuple of
  captured numbers in the order of the groups in the pattern; a captured number string is a `Num`
  (value, has a decimal mark, the mark is a comma) and `',' in g`, `'.' in g`, `g.replace(',', '.', 1)`,
  `float(g)` are the four functions below (`float` of a text with a comma raises ValueError).
-/
import EdzedModel.TimeUnits

namespace Edzed.TimeUnits.Py

/-! ### objects handed to `time_period` -/

/-- what `is None` / `isinstance(x, int | float | str)` can tell about a value (`bool` is an `int`) -/
inductive PyClass where
  | none
  | int (q : Rat)
  | float (q : Rat)
  | str (s : String)
  | other
  deriving Repr

def classOf : Val → PyClass
  | .atom .none => .none
  | .atom (.num q .float) => .float q
  | .atom (.num q _) => .int q
  | .atom (.str s) => .str s
  | _ => .other

/-- `max(a, b)`: the first argument unless the second is greater -/
def pyMax (a b : Rat) : Rat := if a < b then b else a

/-- the call `convert(s)` from `time_period`: the value, or convert's ValueError -/
def callConvert (s : String) : Except PErr Rat :=
  match convert s.toList with
  | .ok q => .ok q
  | .error e => .error (.value e)

/-! ### regular expressions -/

inductive Pat where
  | trad      -- `_RE_DURATION`
  | iso       -- `_RE_ISO_DURATION`
  deriving DecidableEq, Repr

/-- `PATTERN.fullmatch(s)` followed by `.groups()` -/
def fullmatchGroups : Pat → List Char → Option (List (Option Num))
  | .trad, cs => (matchTrad cs).map fun g => [g.d, g.h, g.m, g.s]
  | .iso, cs => (matchIso cs).map fun g => [g.y, g.mo, g.d, g.h, g.m, g.s]

/-- `any((match := re.fullmatch(s)) for re in patterns)`: the groups of the first pattern that matches -/
def firstMatch : List Pat → List Char → Option (List (Option Num))
  | [], _ => none
  | p :: ps, cs =>
    match fullmatchGroups p cs with
    | some g => some g
    | none => firstMatch ps cs

/-- `',' in g` -/
def hasComma (g : Num) : Bool := g.frac && g.comma
/-- `'.' in g` -/
def hasDot (g : Num) : Bool := g.frac && !g.comma
/-- `g.replace(',', '.', 1)` -/
def commaToPoint (g : Num) : Num := { g with comma := false }
/-- `float(g)`: a text with a decimal comma is no float literal -/
def pyFloat (g : Num) : Except Err Rat := if hasComma g then .error .syntax else .ok g.val

/-! ### numbers and formatting -/

/-- the number an `int` / `float` argument stands for, and its Python kind (`true` = float) -/
def secsVal : Secs → Rat
  | .int n => (n : Rat)
  | .float q => q

def secsIsFloat : Secs → Bool
  | .int _ => false
  | .float _ => true

/-- `divmod(x, k)` for a positive integer `k` -/
def pyDivmod (x : Rat) (k : Nat) : Rat × Rat :=
  let d : Int := (x / (k : Rat)).floor
  ((d : Rat), x - (k : Rat) * (d : Rat))

/-- `int(x)`: truncation towards zero -/
def pyTrunc (x : Rat) : Int := if x < 0 then -((-x).floor) else x.floor

/-- `str()` of an int -/
def pyIntStr (z : Int) : List Char := if z < 0 then '-' :: natStr (-z).toNat else natStr z.toNat

/-- `repr` of a float – not modelled (never reached: the code prints floats with a format spec) -/
def pyFloatRepr (_ : Rat) : List Char := ['<', 'f', 'l', 'o', 'a', 't', '>']

/-- `f"{x}"` of a number -/
def pyStrNum (x : Rat) (isFloat : Bool) : List Char := if isFloat then pyFloatRepr x else pyIntStr x.floor

/-- `f"{x:.{p}f}"` (x ≥ 0) -/
def pyFormatFixed (x : Rat) (p : Nat) : List Char :=
  let t := roundTicks x p
  fixedStr (t / 10 ^ p) (t % 10 ^ p) p

/-- `round(x, p)` of a float (x ≥ 0) -/
def pyRound2 (x : Rat) (p : Nat) : Rat := roundTo x p

/-- `round(x)` of a float: an int -/
def pyRound1 (x : Rat) : Int := roundHalfEven x

end Edzed.TimeUnits.Py
