/-
Model of `edzed.OutputAsync` (edzed/blocklib/sblocks2.py): the control tasks `_ctrl_wait`,
`_ctrl_cancel`, `_ctrl_start`, the output task `_output_coro_wrapper`/`_output_coro` (result events,
shielded guard sleep, active-task count) and `stop`/`stop_async` (stop_data, sentinel).

Ideal time in integer microseconds.  User coroutines are scripts `(dur, fail)`: sleep `dur`, then
return or raise.  asyncio is not modelled; the rules the code relies on are explicit:

* the control task runs only between two instants of the script or after an internal event
  (`settle`): several puts made without a loop iteration in between are seen together;
* cancel mode: an item taken from the queue cancels the current run only while its coroutine is
  running; the guard sleep is shielded, the controller waits for it; everything that arrived while
  the controller waited is drained when it resumes: all but the last are reported cancelled;
* `stop` queues `stop_data` as an ordinary (newest) item before the sentinel (wait/cancel); the
  sentinel itself never cancels; in start mode `stop_data` runs after all other runs (`stop_async`).
-/
namespace Edzed.OutputAsync

inductive Mode where
  | wait | cancel | start
  deriving DecidableEq, Repr, Inhabited

/-- the data of a put event: a mapping.  `empty`: it is the EMPTY mapping (legal for a coroutine without
    arguments, `f_args=()`; an empty mapping is false as a Python value, but it is an item like any other);
    `id`, `dur`, `fail`: what the script of the run does with it (for an empty mapping the harness supplies
    them out of band) -/
structure Item where
  id : Nat
  dur : Nat
  fail : Bool
  empty : Bool
  deriving DecidableEq, Repr, Inhabited

/-- an accepted put: `seq` = number of puts accepted before it -/
structure Job where
  seq : Nat
  data : Item
  deriving DecidableEq, Repr, Inhabited

inductive Ev where
  | put (j : Job)           -- accepted by the block (queued)
  | out (n : Nat)           -- output change
  | start (j : Job)         -- the coroutine was entered
  | done (j : Job)          -- the coroutine's sleep ended (it then returns or raises)
  | cancelled (j : Job)     -- CancelledError delivered inside the coroutine
  | succ (j : Job) | err (j : Job) | canc (j : Job)     -- result events with `put = j`
  | late (j : Job)          -- a put that reached the block after `stop()` (behind the sentinel): never served
  | timeout                 -- stop_timeout expired while stop_async was still running (not observable by itself)
  deriving DecidableEq, Repr, Inhabited

structure Run where
  job : Job
  coro : Bool     -- true: coroutine running until `till`; false: guard sleep until `till`
  till : Nat
  deriving DecidableEq, Repr, Inhabited

structure Cfg where
  mode : Mode
  guard : Nat               -- 0 = no guard time
  stopData : Option Item
  stopTimeout : Nat := 1000000000    -- µs after `stop()`
  deriving Repr, Inhabited

structure State where
  now : Nat := 0
  runs : List Run := []           -- active output tasks in start order
  queue : List Job := []          -- accepted, not started (cancel mode: incl. the item the controller holds)
  stopped : Bool := false         -- the sentinel has been queued
  sdPending : Option Job := none  -- start mode: stop_data waits in stop_async for all runs
  deadline : Option Nat := none   -- stop time + stop_timeout, until it has fired
  stopAt : Option Nat := none     -- the instant of `stop()`
  late : List Job := []           -- puts queued behind the sentinel (internal events during the clean-up)
  output : Nat := 0               -- the block's output, counted up/down like the wrapper does
  nacc : Nat := 0                 -- number of accepted puts (incl. stop_data)
  log : List (Nat × Ev) := []     -- newest first
  deriving Repr, Inhabited

def emit (s : State) (e : Ev) : State := { s with log := (s.now, e) :: s.log }

/-- `_output_coro_wrapper` entered: count up, enter the coroutine -/
def startRun (s : State) (j : Job) : State :=
  let s := emit { s with output := s.output + 1 } (.out (s.output + 1))
  let s := emit s (.start j)
  { s with runs := s.runs ++ [⟨j, true, s.now + j.data.dur⟩] }

/-- `_ctrl_cancel`'s drain loop: `data = j`; every newer item discards `data`; the last one runs -/
def drain (s : State) (j : Job) : List Job → State
  | [] => startRun s j
  | k :: q => drain (emit s (.canc j)) k q

/-- the wrapper's `finally`: count down -/
def countDown (s : State) : State :=
  emit { s with output := s.output - 1 } (.out (s.output - 1))

def startAll (s : State) : List Job → State
  | [] => s
  | j :: q => startAll (startRun s j) q

/-- cancel mode, `task.cancel()` while the coroutine runs: CancelledError in the coroutine, on_cancel,
    then the shielded guard sleep; the controller waits in `await task` (with guard 0 the task ends in
    this very instant, but the controller resumes only after it: what arrives in between joins the drain) -/
def cancelCur (c : Cfg) (s : State) (r : Run) (rest : List Run) : State :=
  { emit (emit s (.cancelled r.job)) (.canc r.job) with
    runs := { r with coro := false, till := s.now + c.guard } :: rest }

/-- start mode, `stop_async`: after the control task has ended (all runs gathered) run stop_data -/
def startStopData (s : State) : State :=
  match s.sdPending with
  | some j => if s.stopped && s.runs.isEmpty then startRun { s with sdPending := none } j else s
  | none => s

/-- the control task (and, in start mode, `stop_async`) runs as far as it can -/
def settle (c : Cfg) (s : State) : State :=
  match c.mode with
  | .wait =>
    match s.runs, s.queue with
    | [], j :: q => startRun { s with queue := q } j
    | _, _ => s
  | .cancel =>
    match s.queue with
    | [] => s
    | j :: q =>
      match s.runs with
      | [] => drain { s with queue := [] } j q
      | r :: rest => if r.coro then cancelCur c s r rest else s   -- guard sleep: the controller waits
  | .start => startStopData (startAll { s with queue := [] } s.queue)

def minTill : List Run → Option Nat
  | [] => none
  | r :: rs =>
    match minTill rs with
    | none => some r.till
    | some m => some (min r.till m)

/-- the first run whose timer is due at `t` -/
def pick (t : Nat) : List Run → Option (List Run × Run × List Run)
  | [] => none
  | r :: rs =>
    if r.till = t then some ([], r, rs)
    else match pick t rs with
      | some (a, x, b) => some (r :: a, x, b)
      | none => none

/-- the output task is over (the wrapper's `finally`), then whoever waited for it goes on -/
def finishRun (c : Cfg) (s : State) (a b : List Run) : State :=
  settle c (countDown { s with runs := a ++ b })

/-- the coroutine's sleep is over: result event, then the guard sleep (if any) -/
def coroEnd (c : Cfg) (s : State) (a : List Run) (r : Run) (b : List Run) : State :=
  let s1 := emit (emit s (.done r.job)) (if r.job.data.fail then .err r.job else .succ r.job)
  if c.guard > 0 then
    { s1 with runs := a ++ { r with coro := false, till := s1.now + c.guard } :: b }
  else finishRun c s1 a b

/-- the timer of one run fires at `t` (timers never fire early: `t ≥ now` on every real trace) -/
def fire (c : Cfg) (s : State) (t : Nat) : State :=
  match pick t s.runs with
  | none => s
  | some (a, r, b) =>
    if r.coro then coroEnd c { s with now := max s.now t } a r b
    else finishRun c { s with now := max s.now t } a b

/-- is an internal timer at `m` due w.r.t. the bound: `none` = run to completion,
    `(t, incl)` = everything before `t`, and at `t` itself iff `incl` -/
def due (bound : Option (Nat × Bool)) (m : Nat) : Bool :=
  match bound with
  | none => true
  | some (t, incl) => m < t || (incl && m == t)

/-- the log entries of a cancellation hitting every running coroutine (in start order) -/
def expireEvents (now : Nat) : List Run → List (Nat × Ev) → List (Nat × Ev)
  | [], l => l
  | r :: rs, l =>
    expireEvents now rs (if r.coro then (now, .canc r.job) :: (now, .cancelled r.job) :: l else l)

/-- after a cancellation: running coroutines have ended, their shielded guard sleep begins -/
def toGuard (c : Cfg) (now : Nat) (r : Run) : Run :=
  if r.coro then { r with coro := false, till := now + c.guard } else r

/-- stop_timeout expires while `stop_async` is still running: `_run_tasks`' `wait_for` cancels the
    stop_async task; the cancellation travels down the chain of awaited tasks (control task, `gather`,
    output tasks) to every coroutine that is running in this instant.  `_output_coro` treats it like a
    cancellation by the control task: on_cancel, guard sleep (a guard sleep is shielded) -- and swallows
    it, so everything else (queued items, stop_data) goes on as if nothing had happened. -/
def expire (c : Cfg) (s : State) (d : Nat) : State :=
  { s with
    now := max s.now d
    deadline := none
    runs := s.runs.map (toGuard c (max s.now d))
    log := expireEvents (max s.now d) s.runs ((max s.now d, .timeout) :: s.log) }

/-- the deadline fires before the block's own timers of the same instant (its callback runs in the
    timer batch, before any woken task resumes; a coroutine whose timer fired in that batch is
    cancelled all the same); it is disarmed when stop_async has finished, i.e. when no run is left -/
def deadlineFirst (s : State) (m : Nat) : Option Nat :=
  match s.deadline with
  | some d => if d ≤ m then some d else none
  | none => none

def advance (c : Cfg) (bound : Option (Nat × Bool)) : Nat → State → State
  | 0, s => s
  | fuel + 1, s =>
    match minTill s.runs with
    | some m =>
      match deadlineFirst s m with
      | some d => if due bound d then advance c bound fuel (expire c s d) else s
      | none => if due bound m then advance c bound fuel (fire c s m) else s
    | none => s

/-- every internal step lowers this -/
def measure (s : State) : Nat :=
  2 * s.queue.length + (s.runs.map (fun r => if r.coro then 2 else 1)).sum
    + (if s.sdPending.isSome then 2 else 0) + (if s.deadline.isSome then 1 else 0)

/-- let the loop run up to the bound -/
def advanceTo (c : Cfg) (bound : Option (Nat × Bool)) (s : State) : State :=
  let s := settle c s
  let s := advance c bound (measure s) s
  match bound with
  | some (t, _) => { s with now := max s.now t }
  | none => s

/-- `_event_put` (an external event is accepted only before the shutdown) -/
def accept (s : State) (x : Item) : State :=
  let j : Job := ⟨s.nacc, x⟩
  emit { s with queue := s.queue ++ [j], nacc := s.nacc + 1 } (.put j)

/-- `OutputAsync.stop()` -/
def doStop (c : Cfg) (s : State) : State :=
  if s.stopped then s else
  let s :=
    match c.stopData with
    | none => s
    | some d =>
      if c.mode = Mode.start then
        let j : Job := ⟨s.nacc, d⟩
        emit { s with sdPending := some j, nacc := s.nacc + 1 } (.put j)
      else accept s d
  { s with stopped := true, deadline := some (s.now + c.stopTimeout), stopAt := some s.now }

/-- `_event_put` after `stop()`: `Block.event` still delivers internal events during the clean-up and
    `_event_put` queues the data -- behind the sentinel, where no control task ever looks: the put is
    accepted, but it is neither run nor reported (the docs call the effect of events sent to an
    asynchronous block during the shutdown undefined).  It is numbered from `nacc` upwards. -/
def acceptLate (s : State) (x : Item) : State :=
  let j : Job := ⟨s.nacc + s.late.length, x⟩
  emit { s with late := s.late ++ [j] } (.late j)

inductive Op where
  /-- a put at instant `t`; `pre`: before the block's own timers of that instant;
      `batch`: no loop iteration since the previous put (same instant) -/
  | put (t : Nat) (pre batch : Bool) (x : Item)
  /-- `stop()`; `batch`: the control task has not run since the previous put (same instant) -/
  | stop (t : Nat) (pre batch : Bool)
  | finish
  deriving Repr, Inhabited

def step (c : Cfg) (s : State) : Op → State
  | .put t pre batch x =>
    let s := if batch then s else advanceTo c (some (t, !pre)) s
    if s.stopped then acceptLate s x else accept s x
  | .stop t pre batch => doStop c (if batch then s else advanceTo c (some (t, !pre)) s)
  | .finish => advanceTo c none s

def run (c : Cfg) (ops : List Op) : State := ops.foldl (step c) {}

end Edzed.OutputAsync

/-! ### `utils.shield_cancel` -/
namespace Edzed.OutputAsync.Shield

/-- what one `await asyncio.shield(task)` of `shield_cancel` yields -/
inductive Step (ε ν : Type) where
  | done (v : ν)            -- the inner task has finished with a value
  | cancelPending (e : ε)   -- the awaiting task was cancelled (`e`), the inner task is still running
  | cancelDone (e : ε)      -- cancelled when the inner task is already done ("cancelled from within aw")
  | fail (e : ε)            -- the inner task raised another exception: it passes through the shield
  deriving Repr

/-- `shield_cancel(aw)`: the shielded task is awaited again after every cancellation; the LAST cancellation
    is re-raised when the task has finished; a cancellation that finds the task already done, and any
    other exception, propagate at once; `none` = still waiting when the script ends -/
def shieldCancel {ε ν : Type} : List (Step ε ν) → Option ε → Option (Except ε ν)
  | [], _ => none
  | .done v :: _, none => some (.ok v)
  | .done _ :: _, some e => some (.error e)
  | .cancelPending e :: rest, _ => shieldCancel rest (some e)
  | .cancelDone e :: _, _ => some (.error e)
  | .fail e :: _, _ => some (.error e)

end Edzed.OutputAsync.Shield
