/-
C07 — TimeDate / TimeSpan follow the wall clock.

This is NOT a mirror of cron's sleep loop (floats, adaptive overhead, blocking sleeps).
It is (1) the calendar predicates of `TimeDate.recalc` / `TimeSpan.recalc`
(edzed/blocklib/timedate.py, membership rules of edzed/blocklib/timeinterval.py) on
already parsed integer endpoints, (2) a SPECIFICATION of the recalculation service of
edzed/blocklib/cron.py as an acceptance predicate over traces of what the real cron did,
and (3) the set of blocks recalculated when cron re-synchronises (`set().union(*alarms)`).

Absolute time is a `Nat` of microseconds since 1970-01-01 00:00; `dayOf`/`todOf` split it
into (day number, µs of day). The calendar `day number → (year, month, day, isoweekday)`
is a PARAMETER of every definition; the driver instantiates it with `civil`.
Core Lean only.
-/
namespace Edzed.Cron

/-! ## time -/

def usPerDay : Nat := 86400000000

def dayOf (t : Nat) : Nat := t / usPerDay
def todOf (t : Nat) : Nat := t % usPerDay

structure Civil where
  year : Nat
  month : Nat
  day : Nat
  wday : Nat          -- isoweekday: 1 = Monday … 7 = Sunday
  deriving Repr, DecidableEq, Inhabited

abbrev Calendar := Nat → Civil

/-- executable proleptic Gregorian calendar (days since 1970-01-01), the well known
    era/day-of-era algorithm; compared with Python's `datetime` for every day 1970–2100
    by the correspondence (the theorems do not depend on it) -/
def civil (d : Nat) : Civil :=
  let z := d + 719468
  let era := z / 146097
  let doe := z % 146097
  let yoe := (doe - doe / 1460 + doe / 36524 - doe / 146096) / 365
  let doy := doe - (365 * yoe + yoe / 4 - yoe / 100)
  let mp := (5 * doy + 2) / 153
  let dd := doy - (153 * mp + 2) / 5 + 1
  let m := if mp < 10 then mp + 3 else mp - 9
  let y := yoe + era * 400 + (if m ≤ 2 then 1 else 0)
  { year := y, month := m, day := dd, wday := (d + 3) % 7 + 1 }

/-! ## time of day: half-open cyclic intervals (`_Interval._cmp_open`) -/

/-- `_cmp_open(lo, x, hi)`: `lo ≤ x < hi`, wrapping over midnight when `hi ≤ lo`
    (equal endpoints = the whole day) -/
def inOpen (lo x hi : Nat) : Bool :=
  if lo < hi then decide (lo ≤ x) && decide (x < hi) else decide (lo ≤ x) || decide (x < hi)

def timesContain (iv : List (Nat × Nat)) (x : Nat) : Bool := iv.any fun r => inOpen r.1 x r.2

/-! ## dates without a year: inclusive cyclic intervals (`_Interval._cmp_closed`) -/

/-- (month, day); ordered like `datetime.date(404, month, day)` -/
abbrev MD := Nat × Nat

def mdLe (a b : MD) : Bool := decide (a.1 < b.1) || (decide (a.1 = b.1) && decide (a.2 ≤ b.2))

/-- `_cmp_closed(lo, x, hi)`: `lo ≤ x ≤ hi`, wrapping over the end of the year when `hi < lo` -/
def inClosed (lo x hi : MD) : Bool :=
  if mdLe lo hi then mdLe lo x && mdLe x hi else mdLe lo x || mdLe x hi

def datesContain (iv : List (MD × MD)) (x : MD) : Bool := iv.any fun r => inClosed r.1 x r.2

/-! ## TimeDate -/

/-- parsed configuration = `TimeDate.get_state()`; `none` = argument not given (don't care),
    `some []` = an empty set (never matches) -/
structure TDCfg where
  times : Option (List (Nat × Nat))        -- µs of day
  dates : Option (List (MD × MD))
  weekdays : Option (List Nat)             -- 1..7 (0 has been converted to 7 by the parser)
  deriving Repr, DecidableEq, Inhabited

/-- `TimeDate._is_configured` -/
def TDCfg.configured (c : TDCfg) : Bool :=
  c.times.isSome || c.dates.isSome || c.weekdays.isSome

/-- `TimeDate.recalc(now)`: the value given to `set_output` -/
def timedatePred (cal : Calendar) (c : TDCfg) (now : Nat) : Bool :=
  c.configured
  && (match c.times with
      | none => true
      | some iv => timesContain iv (todOf now))
  && (match c.dates with
      | none => true
      | some iv => datesContain iv ((cal (dayOf now)).month, (cal (dayOf now)).day))
  && (match c.weekdays with
      | none => true
      | some w => w.contains (cal (dayOf now)).wday)

/-- the times of day at which a TimeDate asks cron for a recalculation
    (`_event_reconfig`): all range endpoints of `times`, and always midnight -/
def boundaries (c : TDCfg) : List Nat :=
  0 :: (match c.times with
        | none => []
        | some iv => iv.flatMap fun r => [r.1, r.2])

/-! ## TimeSpan -/

/-- a full date-time, ordered lexicographically like `datetime.datetime` -/
structure Stamp where
  y : Nat
  m : Nat
  d : Nat
  tod : Nat
  deriving Repr, DecidableEq, Inhabited

def Stamp.Lt (a b : Stamp) : Prop :=
  a.y < b.y ∨ (a.y = b.y ∧ (a.m < b.m ∨ (a.m = b.m ∧ (a.d < b.d ∨ (a.d = b.d ∧ a.tod < b.tod)))))

def Stamp.Le (a b : Stamp) : Prop :=
  a.y < b.y ∨ (a.y = b.y ∧ (a.m < b.m ∨ (a.m = b.m ∧ (a.d < b.d ∨ (a.d = b.d ∧ a.tod ≤ b.tod)))))

instance (a b : Stamp) : Decidable (a.Lt b) := by unfold Stamp.Lt; exact inferInstance
instance (a b : Stamp) : Decidable (a.Le b) := by unfold Stamp.Le; exact inferInstance

def stampOf (cal : Calendar) (t : Nat) : Stamp :=
  { y := (cal (dayOf t)).year, m := (cal (dayOf t)).month, d := (cal (dayOf t)).day, tod := todOf t }

abbrev Span := List (Stamp × Stamp)

/-- `DateTimeInterval._cmp_open`: `lo ≤ now < hi`, no wrapping -/
def inSpan (lo x hi : Stamp) : Bool := decide (lo.Le x) && decide (x.Lt hi)

/-- `TimeSpan.recalc(now)`: `now in self._span` -/
def timespanPred (cal : Calendar) (sp : Span) (now : Nat) : Bool :=
  sp.any fun r => inSpan r.1 (stampOf cal now) r.2

def endpoints (sp : Span) : List Stamp := sp.flatMap fun r => [r.1, r.2]

/-! ## both kinds of blocks -/

inductive Cfg where
  | timedate (c : TDCfg)
  | timespan (sp : Span)
  deriving Repr, DecidableEq, Inhabited

def pred (cal : Calendar) : Cfg → Nat → Bool
  | .timedate c, now => timedatePred cal c now
  | .timespan sp, now => timespanPred cal sp now

/-- is there a boundary instant of the block in the half-open interval `(a, b]` ?
    TimeDate: an instant whose time of day is in `boundaries` (midnight included);
    TimeSpan: an end point of one of its ranges. -/
def boundaryIn (cal : Calendar) (cfg : Cfg) (a b : Nat) : Bool :=
  if b ≤ a then false
  else match cfg with
    | .timedate c =>
      if dayOf a < dayOf b then true      -- midnight of the next day
      else (boundaries c).any fun e => decide (todOf a < e) && decide (e ≤ todOf b)
    | .timespan sp =>
      (endpoints sp).any fun e => decide ((stampOf cal a).Lt e) && decide (e.Le (stampOf cal b))

/-- insertion into a sorted duplicate-free list (canonical form of a Python set of numbers) -/
def insertSorted (x : Nat) : List Nat → List Nat
  | [] => [x]
  | y :: ys => if x < y then x :: y :: ys else if x = y then y :: ys else y :: insertSorted x ys

def sortDedup (l : List Nat) : List Nat := l.foldr insertSorted []

/-- the times of day registered with cron by `_event_reconfig` (the reading `now` was taken by
    the reconfiguration itself): TimeDate – its `boundaries`; TimeSpan – the times of day of
    the end points that are not before today ("future events only"), and no midnight -/
def alarmTimes (cal : Calendar) (cfg : Cfg) (now : Nat) : List Nat :=
  match cfg with
  | .timedate c => sortDedup (boundaries c)
  | .timespan sp =>
    let today : Stamp := { stampOf cal now with tod := 0 }
    sortDedup (((endpoints sp).filter fun e => decide (today.Le { e with tod := 0 })).map (·.tod))

/-! ## the alarm table and the blocks recalculated by cron -/

/-- `Cron._alarms`: time of day → set of blocks -/
abbrev Alarms := List (Nat × List Nat)

inductive Err where
  | typeError
  deriving Repr, DecidableEq

/-- the expression of the UNREPAIRED code, `set.union(*self._alarms.values())`:
    the unbound method needs at least one argument -/
def resetTargetsOrig : Alarms → Except Err (List Nat)
  | [] => .error .typeError
  | al => .ok (sortDedup (al.flatMap (·.2)))

/-- `set().union(*self._alarms.values())` (patches/C07-empty-alarms.diff): all registered blocks -/
def resetTargets (al : Alarms) : Except Err (List Nat) :=
  .ok (sortDedup (al.flatMap (·.2)))

/-- `self._alarms[wakeup]` for a wake-up time that is in the table -/
def alarmTargets (al : Alarms) (tod : Nat) : Option (List Nat) :=
  (al.find? fun e => e.1 == tod).map fun e => sortDedup e.2

/-- a group of blocks recalculated by cron with one reading is legal when it is either
    everybody (start / reload / reset) or exactly the set of an alarm that has become due
    less than `lam` µs ago (cyclically: an alarm just before midnight may be served just after it) –
    never one that is not due yet -/
def groupLegal (lam : Nat) (al : Alarms) (read : Nat) (blocks : List Nat) : Bool :=
  (match resetTargets al with
   | .ok all => sortDedup blocks == all
   | .error _ => false)
  || al.any fun e => decide ((todOf read + usPerDay - e.1) % usPerDay < lam)
                      && sortDedup blocks == sortDedup e.2

/-! ## the alarm table as cron maintains it (`add_block` / `remove_block`)

Reference for the tie by translation (EdzedProofs/CronTie.lean, `TrTie.translated_cron_…` in EdzedProps/C07.lean):
`Cron._alarms` as a finite map from times of day (µs) to the registered blocks; a key never holds an empty set. -/

/-- `none` = no such key -/
abbrev Table := Nat → Option (List Nat)

def Table.isKey (tb : Table) (t : Nat) : Bool := (tb t).isSome

/-- is `blk.recalc` called at time of day `t`? -/
def Table.registered (tb : Table) (t b : Nat) : Bool :=
  match tb t with
  | some s => s.contains b
  | none => false

/-- `add_block(t, b)`: the block joins the set of `t` (a new key gets the singleton) -/
def Table.add (tb : Table) (t b : Nat) : Table := fun t' =>
  if t' = t then
    some (match tb t with
          | some s => if s.contains b then s else b :: s
          | none => [b])
  else tb t'

/-- `remove_block(t, b)`: nothing without the key; otherwise the block leaves the set and an empty set takes
    its key along -/
def Table.remove (tb : Table) (t b : Nat) : Table :=
  match tb t with
  | none => tb
  | some s => fun t' =>
    if t' = t then (if (s.filter (· != b)).isEmpty then none else some (s.filter (· != b))) else tb t'

/-- the times of day that are in cron's timetable anyway (`_SET24`: the 24 full hours) -/
def hourly (t : Nat) : Bool := t % 3600000000 == 0 && decide (t < usPerDay)

/-- does `add_block` / `remove_block` ask for a reload of the timetable?  Exactly when a NON-hourly key
    appears or disappears -/
def Table.addNeedsReload (tb : Table) (t : Nat) : Bool := !tb.isKey t && !hourly t
def Table.removeNeedsReload (tb : Table) (t b : Nat) : Bool :=
  match tb t with
  | none => false
  | some s => (s.filter (· != b)).isEmpty && !hourly t

/-- no key holds an empty set -/
def Table.NoEmpty (tb : Table) : Prop := ∀ t, tb t ≠ some []

/-! ## construction and configuration of the service and its clients

Reference for the second part of the tie by translation (`TrTie.translated_croncfg_…`, EdzedProps/C07.lean). -/

/-- the zone information of a time of day handed to `add_block` / `remove_block` -/
inductive Zone where
  | naive
  | utc
  | other
  deriving Repr, DecidableEq

inductive ZoneRes where
  | asIs          -- accepted unchanged
  | stripped      -- accepted, zone removed
  | typeError     -- not a `datetime.time`
  | valueError    -- a zone the service cannot use
  deriving Repr, DecidableEq

/-- `Cron._check_tz`: times are naive; the UTC service (only) also takes times marked as UTC and strips the mark -/
def checkZone (cronUtc isTime : Bool) (z : Zone) : ZoneRes :=
  if !isTime then .typeError
  else match z with
    | .naive => .asIs
    | .utc => if cronUtc then .stripped else .valueError
    | .other => .valueError

/-- the two service blocks -/
def cronName (utc : Bool) : String := if utc then "_cron_utc" else "_cron_local"

/-- what `_get_cron` needs to know about a block of the circuit -/
structure SvcBlk where
  name : String
  isCron : Bool
  utc : Bool
  reserved : Bool
  deriving Repr, DecidableEq

/-- `_get_cron(utc)` on the list of blocks of the current circuit: the block with the service's name is reused
    (`none`: the assertion that it is a Cron fails), otherwise ONE reserved Cron block is created -/
def getCronM (circ : List SvcBlk) (utc : Bool) : Option (SvcBlk × List SvcBlk) :=
  match circ.find? (fun b => b.name == cronName utc) with
  | some b => if b.isCron then some (b, circ) else none
  | none => some (⟨cronName utc, true, utc, true⟩, circ ++ [⟨cronName utc, true, utc, true⟩])

/-- a set of integers in canonical form: sorted, duplicate-free -/
def insertInt (x : Int) : List Int → List Int
  | [] => [x]
  | y :: ys => if x < y then x :: y :: ys else if x = y then y :: ys else y :: insertInt x ys

def intSet (l : List Int) : List Int := l.foldr insertInt []

/-- `_parse3` on a weekday sequence: every number must be 0..7 (else ValueError = `none`); Sunday may be given as
    0 or 7 and is stored as 7; the result is a set -/
def normWeekdays (xs : List Int) : Option (List Int) :=
  if xs.all (fun x => decide (0 ≤ x) && decide (x ≤ 7)) then
    some (intSet (xs.map fun x => if x = 0 then 7 else x))
  else none

/-! ## trace acceptance -/

inductive Rec where
  /-- `_event_reconfig` (also at start-up): new configuration, the reading it took and the output
      it computed from that reading -/
  | config (blk : Nat) (cfg : Cfg) (read : Nat) (out : Bool)
  /-- cron called `blk.recalc(read)`; `out` is the block's output afterwards -/
  | recalc (blk : Nat) (read : Nat) (out : Bool)
  /-- the wall clock was moved forward by `delta` when it showed `t` -/
  | jump (t : Nat) (delta : Nat)
  /-- the output of `blk` observed at wall-clock instant `t` -/
  | probe (t : Nat) (blk : Nat) (out : Bool)
  /-- injected latency: the timer callbacks due at `t` were run `delta` µs late (a load peak of the
      environment, not a behaviour of cron) -/
  | late (t : Nat) (delta : Nat)
  deriving Repr, Inhabited

structure BState where
  cfg : Cfg
  last : Nat              -- the reading of the latest config/recalc
  out : Bool
  stale : Option Nat      -- `some deadline` after a clock jump until cron's next recalculation
  deriving Repr, Inhabited

structure State where
  now : Nat := 0          -- latest instant seen
  graceEnd : Nat := 0     -- no deadline of a pending clock jump / injected delay is later than this
  lateEnd : Nat := 0      -- end of the window of the latest injected delay …
  lateDelta : Nat := 0    -- … and its length
  blocks : Nat → Option BState := fun _ => none

instance : Inhabited State := ⟨{}⟩

structure Params where
  cal : Calendar
  lam : Nat               -- accuracy: a boundary may be served up to `lam` µs late
  bound : Nat             -- recovery time after a forward clock jump

def update (f : Nat → Option BState) (k : Nat) (v : BState) : Nat → Option BState :=
  fun k' => if k' = k then some v else f k'

/-- a clock jump of `delta` at `t`: the block gets until `t + delta + bound`; a deadline that is still
    running moves with the clock (recovery time is measured on the loop clock), one that has passed
    is forgotten -/
def markStale (t delta bound : Nat) (b : BState) : BState :=
  { b with stale := some (match b.stale with
                          | some dl => if t ≤ dl then dl + delta else t + delta + bound
                          | none => t + delta + bound) }

/-- an injected delay of `delta` at `t`: until `t + delta + lam` the accuracy `lam` is not demanded
    (a longer deadline that is still running is kept) -/
def markLate (t delta lam : Nat) (b : BState) : BState :=
  { b with stale := some (match b.stale with
                          | some dl => if t + delta + lam ≤ dl then dl else t + delta + lam
                          | none => t + delta + lam) }

/-- cron's `recalc(read)`. All blocks of one alarm get the same reading; when the output event of one of
    them reconfigures a block synchronously INSIDE the alarm processing, that block's own `config` reading
    is already later than the reading cron hands to it afterwards: such an older reading changes neither
    the latest reading nor a pending deadline -/
def recalcBlock (b : BState) (read : Nat) (out : Bool) : BState :=
  if read < b.last then { b with out := out }
  else { b with last := read, out := out, stale := none }

/-- bookkeeping only: which configuration is current, the latest reading, pending jumps -/
def apply (p : Params) (st : State) : Rec → State
  | .config blk cfg read out =>
    { st with now := read,
              blocks := update st.blocks blk
                { cfg := cfg, last := read, out := out,
                  stale := match st.blocks blk with
                           | some b => b.stale
                           | none => none } }
  | .recalc blk read out =>
    match st.blocks blk with
    | some b => { st with now := if st.now ≤ read then read else st.now,
                          blocks := update st.blocks blk (recalcBlock b read out) }
    | none => st
  | .jump t delta =>
    { st with now := t + delta, graceEnd := t + delta + p.bound,
              blocks := fun k => (st.blocks k).map (markStale t delta p.bound) }
  | .probe t _ _ => { st with now := t }
  | .late t delta =>
    { now := t, graceEnd := if st.graceEnd ≤ t + delta + p.lam then t + delta + p.lam else st.graceEnd,
      lateEnd := t + delta + p.lam, lateDelta := delta,
      blocks := fun k => (st.blocks k).map (markLate t delta p.lam) }

/-- how much later than `lam` an alarm may be served at `read`: the injected delay while its window lasts -/
def lateSlack (st : State) (read : Nat) : Nat := if read ≤ st.lateEnd then st.lateDelta else 0

inductive Verdict where
  | ok
  | order        -- time runs backwards / unknown block
  | s1           -- output ≠ predicate of the reading
  | s2           -- a boundary was not served within `lam`
  | s3           -- a boundary left unserved beyond the grace period of a clock jump / an injected delay
  deriving Repr, DecidableEq

/-- (S2)/(S3) for a block at instant `t`: no boundary of the block has been left unserved for more
    than `lam` since its latest reading; after a clock jump this is not demanded before the deadline
    (a block without any boundary ahead need not be recalculated at all) -/
def coverage (p : Params) (b : BState) (t : Nat) : Verdict :=
  match b.stale with
  | some dl =>
    if t ≤ dl then .ok
    else if boundaryIn p.cal b.cfg b.last (t - p.lam) then .s3 else .ok
  | none => if boundaryIn p.cal b.cfg b.last (t - p.lam) then .s2 else .ok

def verdict (p : Params) (st : State) : Rec → Verdict
  | .config _ cfg read out =>
    if read < st.now then .order
    else if out ≠ pred p.cal cfg read then .s1
    else .ok
  | .recalc blk read out =>
    match st.blocks blk with
    | none => .order
    | some b =>
      if out ≠ pred p.cal b.cfg read then .s1
      else if read < b.last then
        -- a reading older than the block's own latest one: harmless iff it gives the same output
        (if out ≠ pred p.cal b.cfg b.last then .s1 else .ok)
      else coverage p b read
  | .jump t _ => if t < st.now then .order else .ok
  | .probe t blk out =>
    match st.blocks blk with
    | none => .order
    | some b =>
      if t < st.now then .order
      else if out ≠ b.out then .s1
      else coverage p b t
  | .late t delta => if t < st.now ∨ p.bound < delta + p.lam then .order else .ok

def run (p : Params) : State → List Rec → Option State
  | st, [] => some st
  | st, r :: rs => if verdict p st r = .ok then run p (apply p st r) rs else none

/-- the trace of a run of the real cron is accepted -/
def accepts (p : Params) (tr : List Rec) : Bool := (run p {} tr).isSome

/-- the bookkeeping state after a prefix of a trace -/
def track (p : Params) (tr : List Rec) : State := tr.foldl (apply p) {}

end Edzed.Cron
