/-
Model of the simulation life cycle: `Circuit.run_forever`, `_stop_sblocks`, `_run_tasks`,
`run()` (edzed/simulator.py), `AddonMainTask.start/stop_async`, `AddonAsync` (edzed/addons.py),
`FSM.stop/_set_timer` (edzed/fsm.py), `OutputFunc.stop`, `OutputAsync.stop/stop_async`
(edzed/blocklib/sblocks2.py), `ControlBlock` (edzed/blocklib/sblocks1.py).  Property C08.

`runForever c : Result` is one complete run: the blocks are started in creation order, the
initialisation runs (synchronous pass 1, `_run_tasks("async init")`, pass 2, first
evaluation), the simulation runs until the first termination request (external cause at its
instant, main task failure, error), then the clean-up stops the started blocks: the SET of
blocks with asynchronous clean-up first (in an arbitrary order `oa`), their `stop_async`
tasks awaited by `_run_tasks("stop")`, then the SET of the remaining blocks (order `os`).
Both orders are parameters: the correspondence passes the order the implementation used,
the model validates that it is a permutation of the right set, the theorems hold for all.

User code is represented by fault scripts (`Blk.f…` flags: the hook raises) and durations.
The model mirrors the code WITH the repairs patches/C08-run-tasks-cancel.diff (`_run_tasks`
cancels what it did not await to the end), patches/C08-run-tasks-awaits-cancelled.diff (… and
waits, bounded, until the tasks it cancelled have ended), patches/C08-shutdown-shields-simtask.diff
(a cancellation of the caller of `shutdown()` is not forwarded to the simulation task), patches/C04-no-timer-after-stop.diff (a stopped
FSM arms no timer), patches/C08-fsm-timers-from-start.diff (nor does an FSM that was never
started), patches/C08-wait-init-helper.diff (`wait_init` cancels its helper).

One behaviour of the code that contradicts the property is modelled as it is (known finding,
see known_findings.json): an OutputAsync block that was never initialised loses its stop_data
(`outaDelivers`).

Two further behaviours that contradict the property are NOT mirrored, the model says what the
property demands (the harness' oracle reports them as known findings, which covers the divergence
on those scenarios): a `stop_async` that ends with a CancelledError of its own is taken by
`_run_tasks` for a cancellation of the simulator (model: an error of that block's clean-up like
any other, `stopOwnCancel`); the main task of a block whose `start()` raised AFTER
`AddonMainTask.start()` is never stopped (model: a start() fault is a start() fault).  The third,
an OutputFunc receiving the on_success event of another OutputFunc's stop_data after its own
stop(), IS mirrored (`chain`).

Time: natural numbers (the harness uses milliseconds of the virtual clock); instant 0 is the
moment `run_forever` yields after the `start()` loop.
asyncio rules the model relies on (validated by the correspondence, not proved):
`wait_for(t, d)` returns at min(completion, deadline) and cancels `t` at the deadline, with
d ≤ 0 at once; a cancelled awaiter cancels the task it awaits; tasks created in one step run
their first step in creation order before the creator resumes from `sleep(0)`.
-/
namespace Edzed.Lifecycle

inductive Kind where
  | sync      -- SBlock with start/stop only (probe)
  | async     -- AddonMainTask block: main task, optional init_async, stop_async (probe)
  | ainit     -- AddonAsync block with init_async only: no task, no stop_async (InitAsync, AddonAsyncInit)
  | aplain    -- AddonAsync block with stop_async but without a task; stop_timeout may be 0
  | cblock    -- combinational block
  | timer     -- FSM with a timer (edzed.Timer)
  | outf      -- OutputFunc
  | outa      -- OutputAsync (control task; stop_async awaits it)
  | ctrl      -- the `_ctrl` ControlBlock
  deriving DecidableEq, Repr, Inhabited

structure Blk where
  kind : Kind := .sync
  -- fault scripts: the hook raises
  fStart : Bool := false
  fRestore : Bool := false
  fInitAsync : Bool := false
  fInitRegular : Bool := false
  fInitFromValue : Bool := false
  fCalc : Bool := false
  fHandler : Bool := false
  fStop : Bool := false
  fStopAsync : Bool := false
  stopOwnCancel : Bool := false     -- stop_async ends with a CancelledError of its own (a worker it cancelled and awaits)
  fRestoreCalc : Bool := false      -- timer block: calc_output raises / returns UNDEF on the restored state
  mainFailAt : Option Nat := none   -- the main task raises / returns at this instant
  -- configuration
  persistent : Bool := false        -- AddonPersistence block with persistent=True
  restored : Bool := false          -- … and the storage holds a saved state of it
  selfInit : Bool := true           -- init_regular() initialises the output
  hasInitdef : Bool := false        -- init_from_value + initdef given
  hasInitAsync : Bool := false
  initDur : Nat := 0
  initTimeout : Nat := 0
  initCancelDur : Nat := 0          -- time init_async needs to finish once cancelled (await in a `finally`)
  cancelDur : Nat := 0              -- time the main task needs to finish once cancelled
  stopDur : Nat := 0                -- own asynchronous clean-up / duration of the output coroutine
  stopTimeout : Nat := 1
  stopData : Bool := false          -- output block with stop_data
  onSuccess : Option Nat := none    -- output block: on_success = Event(<timer>, 'start')
  armed : Bool := false             -- timer block initialised into a timed state
  savedTimed : Bool := false        -- persistent timer block: the saved state is a timed one, not yet expired
  deriving Repr, Inhabited

inductive CauseKind where
  | shutdown | abort | ctrlShutdown | ctrlAbort | sigterm | supportEnd | supportFail | handlerErr
  -- control events sent from INSIDE the simulator task: on_output of a CBlock evaluated by
  -- `_simulate` -> … -> `_ctrl`; abort() cancels the running task, the CancelledError is pending
  | innerShutdown | innerAbort
  deriving DecidableEq, Repr, Inhabited

def CauseKind.isError : CauseKind → Bool
  -- a failing supporting task makes run() shut the circuit down normally (and raise afterwards)
  | .abort | .ctrlAbort | .handlerErr | .innerAbort => true
  | _ => false

def CauseKind.isInner : CauseKind → Bool
  | .innerShutdown | .innerAbort => true
  | _ => false

/-- a second termination cause that arrives while the clean-up is in progress -/
inductive Second where
  | callerCancel    -- the task that awaits `shutdown()` is cancelled (directly, or by `run()` because another
                    -- supporting coroutine has ended)
  | supportEnd | supportFail    -- a (further) supporting coroutine of `run()` returns / raises
  | abort | sigterm | shutdown  -- `abort()`, SIGTERM, another `shutdown()` call
  deriving DecidableEq, Repr, Inhabited

/-- does the second cause cancel the simulation task (and with it the clean-up in progress)?  Never:
    `abort()` only records the FIRST error and cancels the task then; the SIGTERM handler and a second
    `shutdown()` go through `abort()`; `run()` cancels the supporting tasks only and calls `abort()`;
    `shutdown()` awaits the simulation task through `asyncio.shield`
    (patches/C08-shutdown-shields-simtask.diff), so the cancellation of its caller stops there -/
def Second.cancelsSimtask : Second → Bool
  | .callerCancel => false
  | .supportEnd | .supportFail => false
  | .abort | .sigterm | .shutdown => false

structure Cause where
  kind : CauseKind := .shutdown
  before : Bool := false        -- abort() called before run_forever was started
  time : Nat := 0               -- instant of the request
  target : Option Nat := none   -- handlerErr: the block whose event handler raises
  raiseAfter : Bool := false    -- inner causes: an ordinary exception (the next evaluated CBlock
                                -- raises) ends the try block before the task awaits anything
  late : Bool := false          -- a further request arrives during the clean-up (abort() ignores it)
  second : Option (Second × Nat) := none   -- a SECOND termination cause, so many ms after the first
  deriving Repr, Inhabited

/-- what the persistent storage does when the simulation is being stopped -/
inductive SFault where
  | none        -- works
  | write       -- `__setitem__` raises (disk full, closed shelf, …)
  | writePop    -- `__setitem__` and `pop` raise
  deriving DecidableEq, Repr, Inhabited

/-- who awaits `Circuit.wait_init()` (from the instant the simulation task was created) -/
inductive Waiter where
  | none
  | task                   -- a task of the application; nobody cancels it
  | support                -- a supporting coroutine of `edzed.run()`: cancelled by run() when the first task ends
  | cancelled (t : Nat)    -- a task that is cancelled from outside at instant `t` while the circuit keeps running
  deriving DecidableEq, Repr, Inhabited

structure Cfg where
  blocks : List Blk := []
  cause : Cause := {}
  waitInit : Bool := false      -- an application task awaits wait_init()
  waiter : Waiter := .none      -- … and which kind of task that is
  oa : List Nat := []           -- order in which the set of async blocks was iterated
  os : List Nat := []           -- order in which the set of the remaining blocks was iterated
  storageFault : SFault := .none
  deriving Repr, Inhabited

inductive Res where
  | ok | err | timeout | cancelled
  | pending     -- cancelled, but still running when `_run_tasks` gave up waiting for it
  deriving DecidableEq, Repr, Inhabited

inductive Ev where
  | start (k : Nat)               -- start() called
  | started (k : Nat)             -- start() returned
  | stop (k : Nat)                -- stop() called
  | sab (k : Nat)                 -- stop_async() began
  | sae (k : Nat) (r : Res)       -- stop_async() ended
  | out (k : Nat) (sd : Bool)     -- output function / coroutine called (sd: with stop_data)
  deriving DecidableEq, Repr, Inhabited

inductive Task where
  | init (k : Nat) | main (k : Nat) | ctrl (k : Nat) | stopa (k : Nat) | helper
  deriving DecidableEq, Repr, Inhabited

inductive Err where
  | cancelled     -- normal stop (CancelledError)
  | failure       -- any other exception
  deriving DecidableEq, Repr, Inhabited

/-! ### `_run_tasks` -/

structure Job where
  k : Nat
  dur : Option Nat      -- instant of completion (relative to the creation), none = never
  timeout : Nat
  ok : Bool             -- returns (true) or raises (false) when it completes
  cdur : Nat := 0       -- time the task needs to finish once it is cancelled (an `await` in a `finally`
                        -- clause, an inner task that is awaited)
  deriving Repr, Inhabited

structure JobEnd where
  k : Nat
  time : Nat
  res : Res
  deriving Repr, Inhabited, DecidableEq

def Job.fin (j : Job) : Res := if j.ok then .ok else .err

/-- a task cancelled at `l` by a cancelled `_run_tasks`, which then waits for it until `T`
    (`asyncio.wait(tasks, timeout=<longest timeout> - elapsed)`): it ends at `l + cdur`, or is still
    pending when the wait gives up -/
def Job.cancelEnd (l T : Nat) (j : Job) : JobEnd :=
  if l + j.cdur ≤ max l T then ⟨j.k, l + j.cdur, .cancelled⟩ else ⟨j.k, max l T, .pending⟩

/-- what became of a job that is not the awaited one when `_run_tasks` is cancelled at `l` -/
def Job.atCancel (l T : Nat) (j : Job) : JobEnd :=
  match j.dur with
  | some d => if d ≤ l then ⟨j.k, d, j.fin⟩ else j.cancelEnd l T
  | none => j.cancelEnd l T

/-- the instant the bounded wait for the cancelled tasks returns: when the last of them has ended
    (a pending one "ends" at the bound) -/
def lastEnd (l : Nat) (es : List JobEnd) : Nat := es.foldl (fun m e => max m e.time) l

/-- the longest time-out = the time-out of the first of the sorted jobs (`btt_list[0][2]`) -/
def deadline (js : List Job) : Nat := (js.head?.map (·.timeout)).getD 0

/-- `sorted(btt_list, key=timeout, reverse=True)` – stable -/
def sortJobs (js : List Job) : List Job := js.mergeSort (fun a b => b.timeout ≤ a.timeout)

/-- the task is done at `now` -/
def Job.doneBy (j : Job) (now : Nat) : Bool :=
  match j.dur with
  | some d => decide (d ≤ now)
  | none => false

/-- `wait_for(task, timeout - now)` started at `now` on a task that is not done: the instant it
    returns and how (a non-positive time-out cancels at once) -/
def Job.wake (j : Job) (now : Nat) : Nat × Res :=
  match j.dur with
  | some d => if d < max now j.timeout then (d, j.fin) else (max now j.timeout, .timeout)
  | none => (max now j.timeout, .timeout)

/-- the awaiting task is cancelled at `l` before the instant `w` -/
def cancelledBefore (limit : Option Nat) (w : Nat) : Option Nat :=
  match limit with
  | some l => if l < w then some l else none
  | none => none

/--
The loop of `_run_tasks` over the sorted jobs; `now` = time elapsed since the tasks were
created; `limit` = instant at which the awaiting task itself is cancelled (if ever); `T` = the
longest time-out (`deadline` of the whole sorted list).
Returns the fate of every job, the instant the loop ended and whether it was cancelled.
-/
def awaitJobs (limit : Option Nat) (T : Nat) : Nat → List Job → List JobEnd × Nat × Bool
  | now, [] => ([], now, false)
  | now, j :: js =>
    if j.doneBy now then
      let r := awaitJobs limit T now js
      (⟨j.k, j.dur.getD now, j.fin⟩ :: r.1, r.2)
    else
      match cancelledBefore limit (j.wake now).1 with
      | some l =>
        -- CancelledError in wait_for: the awaited task is cancelled with it and awaited by asyncio
        -- until it has ended (`l + cdur`); then the handler cancels every other task that is not
        -- done and (patches/C08-run-tasks-awaits-cancelled.diff) waits for them, bounded by `T`
        let others := js.map (Job.atCancel (l + j.cdur) T)
        (⟨j.k, l + j.cdur, .cancelled⟩ :: others, lastEnd (l + j.cdur) others, true)
      | none =>
        let r := awaitJobs limit T (j.wake now).1 js
        (⟨j.k, (j.wake now).1, (j.wake now).2⟩ :: r.1, r.2)

/-- `_run_tasks` on freshly created tasks -/
def runTasks (limit : Option Nat) (js : List Job) : List JobEnd × Nat × Bool :=
  awaitJobs limit (deadline (sortJobs js)) 0 (sortJobs js)

/-! ### start -/

def Blk.hasMain (b : Blk) : Bool := b.kind == .async
def Blk.hasCtrl (b : Blk) : Bool := b.kind == .outa
/-- `_stop_sblocks`: AddonAsync block with a stop_async method and stop_timeout > 0 -/
def Blk.asyncStop (b : Blk) : Bool :=
  (b.kind == .async || b.kind == .outa || b.kind == .aplain) && decide (0 < b.stopTimeout)

/-- the `for blk in getblocks(): blk.start(); started_blocks.add(blk)` loop over the blocks
    `i, i+1, …`: events, started blocks, whether a start() raised -/
def startLoop : Nat → List Blk → List Ev × List Nat × Bool
  | _, [] => ([], [], false)
  | i, b :: rest =>
    if b.fStart then ([.start i], [], true)
    else
      let r := startLoop (i + 1) rest
      (.start i :: .started i :: r.1, i :: r.2.1, r.2.2)

def enum (bs : List Blk) : List (Nat × Blk) := bs.zipIdx.map (fun p => (p.2, p.1))

def blk (bs : List Blk) (k : Nat) : Blk := bs.getD k {}

/-! ### initialisation -/

def Blk.restoredOk (b : Blk) : Bool := b.persistent && b.restored && !b.fRestore && !b.fRestoreCalc

/-- init_async is run: AddonAsync block not yet initialised, init_timeout > 0 -/
def Blk.wantsInitAsync (b : Blk) : Bool :=
  (b.kind == .async || b.kind == .ainit) && b.hasInitAsync && !b.restoredOk && decide (0 < b.initTimeout)

def initJobs (bs : List Blk) : List Job :=
  (enum bs).filterMap fun (k, b) =>
    if b.wantsInitAsync then some ⟨k, some b.initDur, b.initTimeout, !b.fInitAsync, b.initCancelDur⟩ else none

/-- second synchronous pass over the SBlocks: the blocks whose `init_sblock` completed and
    whether one raised -/
def sync2 (asyncOk : Nat → Bool) : List (Nat × Blk) → List Nat × Bool
  | [] => ([], false)
  | (k, b) :: rest =>
    if b.kind == .cblock then sync2 asyncOk rest
    else if b.fInitRegular then ([], true)
    else if !(b.restoredOk || asyncOk k || b.selfInit) && b.hasInitdef && b.fInitFromValue then ([], true)
    else
      let r := sync2 asyncOk rest
      (k :: r.1, r.2)

def Blk.initialized (b : Blk) (asyncOk : Nat → Bool) (k : Nat) : Bool :=
  b.kind == .cblock || b.restoredOk || asyncOk k || b.selfInit || b.hasInitdef

/-! ### clean-up -/

structure CState where
  timers : List Nat := []      -- blocks with a pending timer handle
  stopped : List Nat := []     -- blocks whose stop() ran
  started : List Nat := []     -- blocks whose start() returned (constant)
  deriving Repr, Inhabited

/-- `FSM._set_timer` through a 'start' event to timer block `j`: `_timers_enabled` is set by
    `FSM.start()` and cleared by `FSM.stop()` -/
def arm (bs : List Blk) (s : CState) (j : Nat) : CState :=
  if (blk bs j).kind == .timer && s.started.contains j && !s.stopped.contains j then
    { s with timers := j :: s.timers.filter (· != j) }
  else s

/-- the on_success event of OutputFunc `k` when its destination is another OutputFunc: that block's
    function is called with the result -- whether or not the destination was started or is stopped
    already (known finding C08-outputfunc-event-after-stop) -/
def chain (bs : List Blk) (k : Nat) : List Ev :=
  match (blk bs k).onSuccess with
  | some j => if (blk bs j).kind == .outf then [Ev.out j false] else []
  | none => []

/-- `stop()` of one block of the synchronous set -/
def stopSync (bs : List Blk) (s : CState) (k : Nat) : CState × List Ev :=
  let b := blk bs k
  -- OutputFunc.stop: the function is called with stop_data, on_success events are sent
  let s1 := if b.kind == .outf && b.stopData then
      (match b.onSuccess with | some j => arm bs s j | none => s) else s
  let evs := if b.kind == .outf && b.stopData then [Ev.stop k, Ev.out k true] ++ chain bs k else [Ev.stop k]
  -- FSM.stop: _stop_timer, no timers from now on
  ({ timers := s1.timers.filter (· != k), stopped := k :: s1.stopped, started := s1.started }, evs)

def stopSyncAll (bs : List Blk) : CState → List Nat → CState × List Ev
  | s, [] => (s, [])
  | s, k :: ks =>
    let r := stopSync bs s k
    let r2 := stopSyncAll bs r.1 ks
    (r2.1, r.2 ++ r2.2)

/-- an OutputAsync block delivers its stop_data only if it was initialised: otherwise
    `_output_coro_wrapper` fails on `self.output + 1` (output is UNDEF), the control task dies
    and `stop_async` re-raises its exception (known finding C08-outputasync-stop-data-uninitialized) -/
def outaDelivers (bs : List Blk) (inited : List Nat) (k : Nat) : Bool :=
  (blk bs k).kind == .outa && (blk bs k).stopData && inited.contains k

def stopJob (bs : List Blk) (failed : List Nat) (inited : List Nat) (k : Nat) : Job :=
  let b := blk bs k
  if b.kind == .outa then
    -- awaits the control task, which runs the coroutine for stop_data and meets the sentinel
    if b.stopData && !inited.contains k then ⟨k, some 0, b.stopTimeout, false, 0⟩
    else ⟨k, some (if b.stopData then b.stopDur else 0), b.stopTimeout, true, 0⟩
  else if failed.contains k then
    -- `await self._mtask` re-raises the main task's exception
    ⟨k, some 0, b.stopTimeout, false, 0⟩
  else ⟨k, some (b.cancelDur + b.stopDur), b.stopTimeout, !(b.fStopAsync || b.stopOwnCancel), 0⟩

def immediate (bs : List Blk) (failed : List Nat) (inited : List Nat) (k : Nat) : Bool :=
  ((blk bs k).kind == .outa || (blk bs k).kind == .aplain || failed.contains k)
    && (stopJob bs failed inited k).dur == some 0

/-- how a stop_async task ends as seen from inside: `OutputAsync.stop_async` swallows the
    CancelledError of the time-out (`except CancelledError: pass` around the awaited control
    task, which is cancelled with it) and returns normally -/
def seenRes (bs : List Blk) (e : JobEnd) : Res :=
  if (blk bs e.k).kind == .outa && e.res == .timeout then .ok
  -- a CancelledError of its own is what the coroutine ends with; for the clean-up it is an error of
  -- that block like any other (see the header: the code takes it for a cancellation of the simulator)
  else if (blk bs e.k).stopOwnCancel && e.res == .err then .cancelled
  else e.res

def sortEnds (l : List JobEnd) : List JobEnd := l.mergeSort (fun a b => a.time ≤ b.time)

structure Cleanup where
  trace : List Ev
  st : CState
  dur : Nat           -- duration of the asynchronous part
  deriving Repr, Inhabited

/-- `_stop_sblocks(started_blocks)` -/
def stopSblocks (bs : List Blk) (failed : List Nat) (inited : List Nat) (started : List Nat)
    (timers0 : List Nat) (oa os : List Nat) : Cleanup :=
  let stops := oa.map Ev.stop
  -- control tasks of OutputAsync blocks take the stop_data while _stop_sblocks yields
  let outs := (oa.filter (outaDelivers bs inited)).map (Ev.out · true)
  -- first step of every stop_async task, in creation order; one that awaits a task which is
  -- already done (failed main task, finished control task) does not yield and ends at once
  let sabs := oa.flatMap fun k =>
    if immediate bs failed inited k then [Ev.sab k, Ev.sae k (stopJob bs failed inited k).fin]
    else [Ev.sab k]
  let r := runTasks none (oa.map (stopJob bs failed inited))
  let saes := (sortEnds (r.1.filter fun e => !immediate bs failed inited e.k)).map
    fun e => Ev.sae e.k (seenRes bs e)
  let s0 : CState := { timers := timers0, stopped := oa, started := started }
  let r2 := stopSyncAll bs s0 os
  { trace := stops ++ outs ++ sabs ++ saes ++ r2.2, st := r2.1, dur := r.2.1 }

/-! ### the whole run -/

inductive Phase where
  | notStarted | startFailed | afterStart | asyncInit | initFailed | evalFailed | running
  deriving DecidableEq, Repr, Inhabited

structure Result where
  trace : List Ev := []
  started : List Nat := []
  startOk : Bool := false
  phase : Phase := .notStarted
  initRes : List JobEnd := []       -- fate of the init_async tasks
  termTime : Nat := 0               -- instant the simulation was terminated
  endTime : Nat := 0                -- instant run_forever finished
  tasks : List Task := []           -- task table when run_forever has finished
  timers : List Nat := []           -- pending timer handles then
  error : Option Err := none        -- Circuit._error
  simDone : Bool := false
  storage : List Nat := []          -- blocks with an entry in the persistent storage afterwards
  helperSpan : Option (Nat × Nat) := none   -- [from, to): the `_init_done.wait()` helper task of wait_init() exists
  deriving Repr, Inhabited

/-- earliest main task failure among the started blocks: (instant, block) -/
def firstMainFail (bs : List Blk) (started : List Nat) : Option (Nat × Nat) :=
  started.foldl (fun acc k =>
    match (blk bs k).kind == .async, (blk bs k).mainFailAt with
    | true, some t => (match acc with
        | some (t0, _) => if t < t0 then some (t, k) else acc
        | none => some (t, k))
    | _, _ => acc) none

/-- tasks owned by the started blocks when the clean-up begins -/
def blockTasks (bs : List Blk) (started : List Nat) (failed : List Nat) : List Task :=
  started.filterMap fun k =>
    let b := blk bs k
    if b.hasMain then (if failed.contains k then none else some (Task.main k))
    else if b.hasCtrl then some (Task.ctrl k) else none

/-- a task of a block that went through the asynchronous clean-up is gone afterwards:
    `AddonMainTask.stop_async` cancels and awaits the main task, `OutputAsync.stop_async`
    awaits the control task (cancelled with it at the time-out) -/
def Task.cleanedBy (oa : List Nat) : Task → Bool
  | .main k | .ctrl k | .stopa k => oa.contains k
  | .init _ => false
  | .helper => false

def permOf (l s : List Nat) : Bool := l.isPerm s

/-- timer blocks with a pending timer when the initialisation is over: a block whose timed state was
    RESTORED (first pass; the remaining time is re-armed), or that the second pass initialised into a
    timed state.  A FAILED restore leaves no timer (patches/C08-restore-fault-leaks-timer.diff:
    `_restore_state` arms the timer only after `calc_output()` has succeeded) – the block then gets
    its state, and possibly a timer, from the second pass only -/
def initTimers (bs : List Blk) (started : List Nat) (pass1 : Bool) (pass2 : List Nat) : List Nat :=
  started.filter fun k => (blk bs k).kind == .timer &&
    ((pass1 && (blk bs k).restoredOk && (blk bs k).savedTimed) ||
     (!(blk bs k).restoredOk && pass2.contains k && (blk bs k).armed))

/-- output functions that the application calls once the circuit runs -/
def putBlocksOf (bs : List Blk) (started : List Nat) (phase : Phase) : List Nat :=
  if phase == .running then started.filter (fun k => (blk bs k).kind == .outf) else []

/-- the on_success events of these calls ('start' to a timer block) -/
def armAll (bs : List Blk) (s : CState) (ks : List Nat) : CState :=
  ks.foldl (fun s k => match (blk bs k).onSuccess with | some j => arm bs s j | none => s) s

/-- where the try block of run_forever is left: the first of start() failure, request at the yield
    after the start loop, cancellation during the asynchronous initialisation, initialisation
    error, error of the first evaluation; otherwise the circuit runs until the request -/
def phaseOf (startFailed atZero cancelled initBad calcFails : Bool) : Phase :=
  if startFailed then .startFailed
  else if atZero then .afterStart
  else if cancelled then .asyncInit
  else if initBad then .initFailed
  else if calcFails then .evalFailed
  else .running

/-- everything that happened before the clean-up -/
structure Plan where
  startEvs : List Ev          -- events of the start loop
  started : List Nat          -- started_blocks
  phase : Phase               -- where the simulation was when it was terminated
  termTime : Nat
  isError : Bool              -- Circuit._error is not a CancelledError
  initRes : List JobEnd
  failed : List Nat           -- main tasks that have raised / returned by now
  inited : List Nat           -- blocks whose second initialisation pass completed
  puts : List Ev              -- output functions called by the running circuit
  timers : List Nat           -- timer handles pending when the clean-up begins
  helper : Bool               -- wait_init() is still waiting
  initEnd : Option Nat        -- instant of `_init_done.set()`, if the initialisation was completed
  byCause : Bool              -- the simulation is terminated by the scenario's request (not by a main task)
  pendingCancel : Bool        -- a cancellation of the simulation task is still to be delivered
  noPersist : Option Nat      -- `AddonPersistence.event` disabled the persistence of this block, because its
                              -- handler raised and stopped the simulation ("the state may be corrupted")
  deriving Repr, Inhabited

def plan (c : Cfg) : Plan :=
  let bs := c.blocks
  let sl := startLoop 0 bs
  let started := sl.2.1
  let startFailed := sl.2.2
  -- who terminates the simulation if start-up and initialisation succeed: the external
  -- request or the first failing main task (`_task_monitor` calls abort())
  let ext : Nat × Bool × Bool :=        -- instant, is an error, is the request of the scenario
    match firstMainFail bs started with
    | some (t, _) => if t < c.cause.time then (t, true, false) else (c.cause.time, c.cause.kind.isError, true)
    | none => (c.cause.time, c.cause.kind.isError, true)
  let tX := ext.1
  -- initialisation
  let ir := runTasks (some tX) (initJobs bs)
  let asyncOk : Nat → Bool := fun k => ir.1.any fun e => e.k == k && e.res == .ok
  let s2 := sync2 asyncOk (enum bs)
  let allInit := (enum bs).all fun (k, b) => b.initialized asyncOk k
  let calcFails := bs.any fun b => b.kind == .cblock && b.fCalc
  -- phase in which the simulation was terminated, instant, error?, init results
  let phase := phaseOf startFailed (tX == 0) ir.2.2 (s2.2 || !allInit) calcFails
  let tT : Nat := match phase with
    | .startFailed | .afterStart | .notStarted => 0
    | .running => tX
    -- a cancelled `_run_tasks` has waited for the tasks it cancelled
    | .asyncInit | .initFailed | .evalFailed => ir.2.1
  let isErr : Bool := match phase with
    | .startFailed | .initFailed | .evalFailed => true
    | _ => ext.2.1
  let initRes : List JobEnd := match phase with
    | .startFailed | .afterStart | .notStarted => []
    | _ => ir.1
  let failed := started.filter fun k => (blk bs k).kind == .async &&
    (match (blk bs k).mainFailAt with | some t => decide (t ≤ tT) | none => false)
  -- timers armed by the initialisation (pass 2) and by the output events of the running circuit
  let pass2 : List Nat :=
    if phase == .initFailed || phase == .evalFailed || phase == .running then s2.1 else []
  let putBlocks := putBlocksOf bs started phase
  let sRun := armAll bs { timers := initTimers bs started (phase != .startFailed && phase != .afterStart) pass2,
                              stopped := [], started := started } putBlocks
  let initDone := phase == .evalFailed || phase == .running
  { startEvs := sl.1, started := started, phase := phase, termTime := tT, isError := isErr
    initRes := initRes, failed := failed, inited := pass2
    puts := putBlocks.flatMap (fun k => Ev.out k false :: chain bs k), timers := sRun.timers
    helper := c.waitInit && !initDone
    initEnd := if initDone then some ir.2.1 else none
    byCause := ext.2.2
    -- abort() was called inside the simulator task and an exception left the try block before
    -- the task awaited anything: the CancelledError has not been delivered yet
    pendingCancel := phase == .running && ext.2.2 && c.cause.kind.isInner && c.cause.raiseAfter
    noPersist := if phase == .running && ext.2.2 && c.cause.kind == .handlerErr then c.cause.target else none }

/-- the sets handed to `_stop_sblocks` -/
def setA (bs : List Blk) (started : List Nat) : List Nat := started.filter fun k => (blk bs k).asyncStop
def setS (bs : List Blk) (started : List Nat) : List Nat := started.filter fun k => !(blk bs k).asyncStop

/-- `try: await asyncio.sleep(0) except CancelledError: pass` between the try block and the
    clean-up of `run_forever`: a pending cancellation is delivered and swallowed HERE -/
def consumePending (p : Plan) : Plan := { p with pendingCancel := false }

/-! ### saving the persistent state before the blocks are stopped -/

/-- the block has an output when the simulation is terminated (`get_state()` succeeds) -/
def outputSet (bs : List Blk) (p : Plan) (k : Nat) : Bool :=
  let b := blk bs k
  b.restoredOk || (p.initRes.any fun e => e.k == k && e.res == .ok)
    || (p.inited.contains k && (b.selfInit || b.hasInitdef))
    -- an FSM has its state (get_state() works) once `_restore_state` has assigned it, even if calc_output failed
    || (b.kind == .timer && b.persistent && b.restored && !b.fRestore)

/-- `AddonPersistence.save_persistent_state`: nothing for a block without persistent=True;
    the state is stored, or – `get_state()` of an uninitialised block raises, every error is
    suppressed – a stale entry is removed (`pop(key, None)`: no entry is no error) -/
def saveOne (bs : List Blk) (p : Plan) (st : List Nat) (k : Nat) : List Nat :=
  if !(blk bs k).persistent then st
  else if outputSet bs p k then k :: st.filter (· != k)
  else st.filter (· != k)

/-- one `blk.save_persistent_state()` with a storage that may fail at the stop: the new storage, and
    whether an exception of the storage ESCAPES the method.  `write`: `__setitem__` raises – caught
    inside, the stale entry is popped; `writePop`: `pop` raises as well – that exception escapes,
    nothing was changed -/
def saveOneF (f : SFault) (bs : List Blk) (p : Plan) (st : List Nat) (k : Nat) : List Nat × Bool :=
  if !(blk bs k).persistent || p.noPersist == some k then (st, false)
  else match f with
    | .none => (saveOne bs p st k, false)
    | .write => (st.filter (· != k), false)
    | .writePop => (st, true)

/-- the loop over the started blocks; an escaping exception ends it -/
def saveAllF (f : SFault) (bs : List Blk) (p : Plan) : List Nat → List Nat → List Nat × Bool
  | [], st => (st, false)
  | k :: ks, st =>
    if (saveOneF f bs p st k).2 then ((saveOneF f bs p st k).1, true)
    else saveAllF f bs p ks (saveOneF f bs p st k).1

/-- `if start_ok and self.persistent_dict is not None: try: for blk in started_blocks ∩
    AddonPersistence: blk.save_persistent_state(); <write the stop time> except Exception: <log>` –
    with patches/C08-storage-fault-at-stop-skips-cleanup.diff it returns normally whatever the
    blocks' states are and whatever the storage does (an escaping exception of the loop, or of the
    write of the stop time when `f ≠ none`, is logged) -/
def saveStep (f : SFault) (bs : List Blk) (p : Plan) (st : List Nat) : List Nat :=
  if p.phase != .startFailed && p.phase != .afterStart then (saveAllF f bs p p.started st).1 else st

/-- entries of the storage before the run -/
def storage0 (bs : List Blk) : List Nat :=
  (List.range bs.length).filter fun k => (blk bs k).persistent && (blk bs k).restored

/-- entries of the storage when the simulation is terminated: `_init_sblocks_sync_2` saves the state of
    every persistent block once the initialisation has succeeded -/
def storageAtStop (bs : List Blk) (p : Plan) : List Nat :=
  if p.phase == .evalFailed || p.phase == .running then
    (List.range bs.length).filter fun k => (blk bs k).persistent
  else storage0 bs

/-- life span of the helper task `asyncio.create_task(self._init_done.wait())` of a `wait_init()` call made
    at instant 0: THE HELPER LIVES NO LONGER THAN THE CALL.  The call ends when the initialisation is
    done, when the simulation task is done (`endTime`), or when its caller is cancelled – by `run()`,
    which cancels the supporting tasks as soon as one task ends (a supporting task at `termTime`, else
    the simulation task at `endTime`), or from outside; `wait_init` cancels the helper in a `finally` -/
def helperSpanOf (c : Cfg) (p : Plan) (endTime : Nat) : Option (Nat × Nat) :=
  let natural : Nat := match p.initEnd with
    | some t => min t endTime
    | none => endTime
  match c.waiter with
  | .none => none
  | .task => some (0, natural)
  | .support =>
    let runCancels := if p.byCause && (c.cause.kind == .supportEnd || c.cause.kind == .supportFail)
      then p.termTime else endTime
    some (0, min runCancels natural)
  | .cancelled t => some (0, min t natural)

/-- is the helper task there at instant `t` -/
def helperAt (span : Option (Nat × Nat)) (t : Nat) : Bool :=
  match span with
  | some (a, b) => decide (a ≤ t) && decide (t < b)
  | none => false

/-- the clean-up of `run_forever` after the events of `p`; `none`: `oa`/`os` are not
    enumerations of the two sets -/
def finish (c : Cfg) (p0 : Plan) : Option Result :=
  let bs := c.blocks
  let p := consumePending p0
  if !(permOf c.oa (setA bs p.started) && permOf c.os (setS bs p.started)) then none
  else if (p.pendingCancel || (c.cause.second.any fun x => x.1.cancelsSimtask)) && !c.oa.isEmpty then
    -- a cancellation that were still pending now would end `_stop_sblocks` at its first await:
    -- after the stop() calls of the asynchronous set, nothing else
    some {
      trace := p.startEvs ++ p.puts ++ c.oa.map Ev.stop
      started := p.started, startOk := true, phase := p.phase, initRes := p.initRes
      termTime := p.termTime, endTime := p.termTime
      tasks := blockTasks bs p.started p.failed ++ (if p.helper then [Task.helper] else [])
      timers := p.timers
      error := some (if p.isError then .failure else .cancelled)
      simDone := true }
  else
    let cl := stopSblocks bs p.failed p.inited p.started p.timers c.oa c.os
    let tasks0 := blockTasks bs p.started p.failed ++ (if p.helper then [Task.helper] else [])
    -- stop_async took the block tasks away; wait_init cancels its helper when the simulation task is done
    let tasks1 := (tasks0.filter fun t => !t.cleanedBy c.oa).filter (· != Task.helper)
    some {
      trace := p.startEvs ++ p.puts ++ cl.trace
      started := p.started
      startOk := p.phase != .startFailed && p.phase != .afterStart
      phase := p.phase
      initRes := p.initRes
      termTime := p.termTime
      endTime := p.termTime + cl.dur
      tasks := tasks1
      timers := cl.st.timers
      error := some (if p.isError then .failure else .cancelled)
      simDone := true
      storage := saveStep c.storageFault bs p (storageAtStop bs p)
      helperSpan := helperSpanOf c p (p.termTime + cl.dur) }

def runForever (c : Cfg) : Option Result :=
  if c.cause.before then
    -- `raise self._error` before anything was started
    some { error := some (if c.cause.kind.isError then .failure else .cancelled), simDone := true
           storage := storage0 c.blocks }
  else finish c (plan c)

/-! ### after the run -/

/-- `run_forever()` called again -/
def restart (r : Result) : Option Unit := if r.simDone then none else some ()
/-- `addblock` / `set_persistent_data`: check_not_finalized -/
def modify (r : Result) : Option Unit := if r.error.isSome then none else some ()

end Edzed.Lifecycle
