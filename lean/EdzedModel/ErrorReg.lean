/-
Model of the simulator's error register and of the life cycle of the simulation task
(edzed/simulator.py: `Circuit._error`, `abort`, the `except` clause of `run_forever`, `shutdown`,
`run`; edzed/block.py: error classification in `SBlock.event`; edzed/addons.py: `_task_monitor`;
edzed/blocklib/sblocks1.py: `ControlBlock`).

The register has exactly two writers, both guarded by `if self._error is None`:
`Circuit.abort(exc)` and the `except (Exception, CancelledError)` clause of `run_forever`.
Everything else in this file says WHO calls those two writers, and WHEN: immediately (the caller's
own stack) or deferred to the next iteration of the event loop (a woken task).  The few asyncio
rules the code relies on are explicit here (FIFO order of woken tasks; a `cancel()` requested on a
task is thrown into it when it next runs; `run_forever` swallows one pending cancellation at its
`await asyncio.sleep(0)`); they are validated by the correspondence, not proved.
-/
namespace Edzed.ErrorReg

/-- exceptions that can end up in `Circuit._error` -/
inductive Err where
  | cancelled (tag : Nat)   -- asyncio.CancelledError: 0 bare `task.cancel()`, 1 'shutdown' (shutdown(), run()),
                            -- 2 ControlBlock 'shutdown' event, 4 SIGTERM
  | exc (id : Nat)          -- the exception object raised by the scripted source `id`
  | wrapped (id : Nat)      -- EdzedCircuitError made by `SBlock.event`, `__cause__` = exc id
  | reported (id : Nat)     -- EdzedCircuitError made by the ControlBlock 'abort' event, `__cause__` = exc id
  | notInit                 -- EdzedCircuitError("<block>: not initialized") raised by `_init_sblocks_sync_2`
  | reportedText            -- EdzedCircuitError made by the ControlBlock 'abort' event WITHOUT a `__cause__`: the
                            -- reported `error` item is not an Exception (a string, missing, a BaseException)
  deriving DecidableEq, Repr, Inhabited

def Err.isCancel : Err → Bool
  | .cancelled _ => true
  | _ => false

/-- the exception families `SBlock.event` can tell apart when a handler call ends with an exception
    (`except EdzedUnknownEvent: raise` / `except Exception` + the depth of the traceback) -/
inductive Family where
  | generic        -- any other Exception (RuntimeError, ValueError, …)
  | circuitError   -- EdzedCircuitError
  | invalidState   -- EdzedInvalidState
  | unknownEvent   -- EdzedUnknownEvent
  | typeError      -- TypeError
  deriving DecidableEq, Repr, Inhabited

/-- what can go wrong with one event delivered to a block -/
inductive Fault where
  | inHandler (f : Family)   -- the handler's own code raises an exception of family `f`
  | wrongParams              -- the call of the handler itself fails (missing / unexpected parameter): TypeError
                             -- with a traceback of ONE level
  | unknownType              -- no handler: the default `_event()` raises EdzedUnknownEvent
  | nested                   -- the handler sends another event, and THAT one is of an unknown type:
                             -- EdzedUnknownEvent travels through the handler
  deriving DecidableEq, Repr, Inhabited

/-- what `SBlock.event` sees of a fault: the exception's family and whether the traceback is deeper than
    the call itself -/
def Fault.seen : Fault → Family × Bool
  | .inHandler f => (f, true)
  | .wrongParams => (.typeError, false)
  | .unknownType => (.unknownEvent, true)
  | .nested => (.unknownEvent, true)

/-- the classification made by `SBlock.event` (total): `abort()` is called -- the fault is FATAL -- iff the
    exception is not an EdzedUnknownEvent and was raised inside the handler -/
def fatalSeen (x : Family × Bool) : Bool := x.1 != .unknownEvent && x.2

def Fault.fatal (f : Fault) : Bool := fatalSeen f.seen

/-- where the simulation task is -/
inductive Phase where
  | notStarted   -- `_simtask is None` (also: task created but not yet run)
  | tryBlock     -- inside the `try` of run_forever: initialising or simulating
  | sleep0       -- left the `try`; at `await asyncio.sleep(0)` (one pending cancellation is swallowed here)
  | cleanup      -- awaiting asynchronous clean-up of blocks
  | done         -- run_forever has raised `_error`
  deriving DecidableEq, Repr, Inhabited

/-- evaluation that will raise as soon as the simulator evaluates it -/
inductive Armed where
  | calc (id : Nat)          -- a CBlock function raising exc id
  | calcHandler (id : Nat) (f : Family)
                             -- a CBlock whose on_output event reaches a handler raising exc id (of family f)
  deriving DecidableEq, Repr, Inhabited

/-- something scheduled to run in the next iteration of the event loop -/
inductive Wake where
  | sim                        -- the simulation task
  | mon (id : Nat)             -- a monitored block task that will raise exc id
  | sup (i : Nat) (id : Nat)   -- supporting coroutine #i of run() that will raise exc id
  | supEnd (i : Nat)           -- supporting coroutine #i that returns normally
  | shut                       -- a task calling `Circuit.shutdown()`
  | sig                        -- `call_soon_threadsafe(abort, CancelledError)` queued by the SIGTERM handler
  | runWaiter                  -- run() resuming from `asyncio.wait(FIRST_COMPLETED)`
  | runAbort                   -- run() after its `await asyncio.sleep(0)`: `abort(CancelledError('shutdown'))`
  deriving DecidableEq, Repr, Inhabited

structure St where
  phase : Phase := .notStarted
  error : Option Err := none            -- `Circuit._error`
  mustCancel : Bool := false            -- `cancel()` requested on the simulation task, not yet thrown in
  armed : Option Armed := none
  wake : List Wake := []                -- FIFO of the next loop iteration
  slowCleanup : Bool := false           -- a block with asynchronous clean-up exists
  supDone : List (Nat × Option Nat) := []   -- finished supporting coroutines: (index, exception id)
  runWaiting : Bool := false            -- run() is (still) blocked in asyncio.wait
  runMode : Bool := false
  earlyFail : Bool := false             -- a synchronous initialisation routine has failed EARLY (reached through an
                                        -- event during the start-up, the sender swallowed the exception): the step is
                                        -- marked as failed and never attempted again, the block stays uninitialised
  deriving Repr, Inhabited

/-- `Circuit.is_ready()` -/
def St.ready (s : St) : Bool := s.phase != .notStarted && s.error.isNone

def St.addWake (s : St) (w : Wake) : St :=
  if s.wake.contains w then s else { s with wake := s.wake ++ [w] }

/-- run() notices a finished task -/
def St.notifyRun (s : St) : St :=
  if s.runMode && s.runWaiting then { s.addWake .runWaiter with runWaiting := false } else s

/-- `Circuit.abort(e)`: the first error wins; the simulation task is cancelled.
    Returns the new state; the call is a *delivery* of `e` to the simulator in any case. -/
def St.abort (s : St) (e : Err) : St :=
  match s.error with
  | some _ => s
  | none =>
    let s := { s with error := some e }
    if s.phase == .tryBlock || s.phase == .sleep0 || s.phase == .cleanup then
      { s.addWake .sim with mustCancel := true }
    else s

/-- the `except` clause of run_forever: the first error wins -/
def St.caught (s : St) (e : Err) : St :=
  match s.error with
  | some _ => s
  | none => { s with error := some e }

/-- the simulation task leaves its `try` block -/
def St.leaveTry (s : St) : St := { s with phase := .sleep0, armed := none }.addWake .sim

/-- operations issued by the environment (the driver coroutine / application code) -/
inductive Op where
  | start (initErr : Option Nat)  -- the task begins to execute run_forever; `initErr`: a synchronous
                                  -- initialisation routine raises exc id
  | abortCall (e : Err)           -- `circuit.abort(e)`
  | handlerErr (id : Nat) (f : Family)
                                  -- external event whose handler raises exc id (of family f) *inside* the handler
  | earlyInitFail (id : Nat)      -- an event sent DURING the start-up (the circuit accepts events as soon as the task
                                  -- has begun) reaches a block that is not initialised yet; its early initialisation
                                  -- raises exc id in a synchronous routine; the sender catches the exception
  | paramErr                      -- external event with a missing parameter (TypeError from the call itself)
  | unknownEvt                    -- external event of a type the block does not know
  | nestedUnknown (outChanged : Bool)
                                  -- external event whose handler sends an INTERNAL event of an unknown type
                                  -- (on_output event to another block: the sender's output has changed, which
                                  -- wakes the simulator; or an FSM entry action to its own block: it has not)
  | ctrlAbort (id : Nat)          -- external 'abort' event to the ControlBlock, error = exc id
  | ctrlAbortText                 -- external 'abort' event to the ControlBlock whose `error` item is not an exception
  | ctrlShutdown                  -- external 'shutdown' event to the ControlBlock
  | armCalc (a : Armed)           -- external event that changes an input of a raising evaluation
  | rawCancel                     -- `simtask.cancel()`
  | monTrigger (id : Nat)         -- wake a monitored block task that then raises exc id
  | supTrigger (i : Nat) (id : Option Nat)   -- wake supporting coroutine #i: raises exc id / returns
  | shutdownTask                  -- create a task running `circuit.shutdown()`
  | sigterm                       -- SIGTERM arrives (run() with catch_sigterm)
  | tick                          -- one iteration of the event loop: every woken task runs once
  | finish                        -- the asynchronous clean-up completes
  deriving Repr, Inhabited

/-- what the caller of an operation sees -/
inductive Reply where
  | ok                      -- returned normally
  | raised (e : Err)        -- the exception propagated to the caller
  | typeError | unknownEvent | invalidState
  | attributeError          -- only `wait_init()` after an abort before the start (see `waitInitReply`)
  deriving DecidableEq, Repr, Inhabited

structure Out where
  dels : List Err := []     -- deliveries to the simulator (abort calls and caught exceptions), in order
  reply : Reply := .ok
  deriving Repr, Inhabited

/-- one woken task runs -/
def wakeStep (s : St) : Wake → St × List Err
  | .sim =>
    match s.phase with
    | .tryBlock =>
      if s.mustCancel then
        -- CancelledError is thrown into the try block
        (({ s with mustCancel := false }.caught (.cancelled 0)).leaveTry, [.cancelled 0])
      else match s.armed with
        | some (.calc id) => ((s.caught (.exc id)).leaveTry, [.exc id])
        | some (.calcHandler id f) =>
          -- SBlock.event: abort(wrapped) -- unless the handler's exception is an EdzedUnknownEvent -- then re-raise;
          -- the exception leaves eval_block/_simulate and ends the simulation task in any case
          if (Fault.inHandler f).fatal then
            let s1 := s.abort (.wrapped id)
            ((s1.caught (.exc id)).leaveTry, [.wrapped id, .exc id])
          else ((s.caught (.exc id)).leaveTry, [.exc id])
        | none => (s, [])
    | .sleep0 =>
      -- a pending cancellation is swallowed; blocks are stopped
      let s := { s with mustCancel := false }
      if s.slowCleanup then ({ s with phase := .cleanup }, [])
      else ({ s with phase := .done }.notifyRun, [])
    | _ => (s, [])
  | .mon id => (s.abort (.exc id), [.exc id])          -- `_task_monitor`: abort(err); raise
  | .sup i id => ({ s with supDone := s.supDone ++ [(i, some id)] }.notifyRun, [])
  | .supEnd i => ({ s with supDone := s.supDone ++ [(i, none)] }.notifyRun, [])
  | .shut => if s.phase == .notStarted then (s, []) else (s.abort (.cancelled 1), [.cancelled 1])
  | .sig => (s.abort (.cancelled 4), [.cancelled 4])
  | .runWaiter => (s.addWake .runAbort, [])            -- cancels the other tasks, then sleep(0)
  | .runAbort => if s.phase == .done then (s, []) else (s.abort (.cancelled 1), [.cancelled 1])

def tickFold (ws : List Wake) (acc : St × List Err) : St × List Err :=
  ws.foldl (fun acc w => let r := wakeStep acc.1 w; (r.1, acc.2 ++ r.2)) acc

def step (s : St) : Op → St × Out
  | .start initErr =>
    if s.phase != .notStarted then (s, { reply := .invalidState })
    else
      let s := { s with phase := .tryBlock, runWaiting := s.runMode }
      match s.error, initErr with
      | some _, _ => (s.leaveTry, {})                         -- `raise self._error`: stop before start
      | none, some id => ((s.caught (.exc id)).leaveTry, { dels := [.exc id] })
      | none, none =>
        -- the failed early step is not attempted again: the block is still uninitialised at the end of the start-up
        if s.earlyFail then ((s.caught .notInit).leaveTry, { dels := [.notInit] }) else (s, {})
  | .abortCall e => (s.abort e, { dels := [e] })
  | .handlerErr id f =>
    if s.ready then
      if (Fault.inHandler f).fatal then (s.abort (.wrapped id), { dels := [.wrapped id], reply := .raised (.exc id) })
      else (s, { reply := .raised (.exc id) })     -- EdzedUnknownEvent: re-raised to the caller only
    else (s, { reply := .invalidState })
  -- the exception of the init routine leaves `SBlock.event` BEFORE the handler's try block: no abort(); the task
  -- has begun (the harness logs `start` afterwards), nothing is delivered now
  | .earlyInitFail id =>
    if s.phase == .notStarted && s.error.isNone then ({ s with earlyFail := true }, { reply := .raised (.exc id) })
    else (s, { reply := .invalidState })
  | .paramErr => (s, { reply := if s.ready then .typeError else .invalidState })
  | .unknownEvt => (s, { reply := if s.ready then .unknownEvent else .invalidState })
  -- the code: `except EdzedUnknownEvent: raise` lets the nested exception pass through the outer
  -- handler without abort() -- mirrored here, see `nested_unknown_event_not_fatal` in EdzedProps/C09.lean
  | .nestedUnknown outChanged =>
    if s.ready then
      ((if outChanged && s.phase == .tryBlock then s.addWake .sim else s), { reply := .unknownEvent })
    else (s, { reply := .invalidState })
  | .ctrlAbort id =>
    if s.ready then (s.abort (.reported id), { dels := [.reported id] }) else (s, { reply := .invalidState })
  | .ctrlAbortText =>
    if s.ready then (s.abort .reportedText, { dels := [.reportedText] }) else (s, { reply := .invalidState })
  | .ctrlShutdown =>
    if s.ready then (s.abort (.cancelled 2), { dels := [.cancelled 2] }) else (s, { reply := .invalidState })
  | .armCalc a =>
    if s.ready then
      if s.phase == .tryBlock then ({ s with armed := some a }.addWake .sim, {}) else (s, {})
    else (s, { reply := .invalidState })
  | .rawCancel =>
    if s.phase == .tryBlock then ({ s.addWake .sim with mustCancel := true }, {}) else (s, {})
  | .monTrigger id => (s.addWake (.mon id), {})
  | .supTrigger i (some id) => (s.addWake (.sup i id), {})
  | .supTrigger i none => (s.addWake (.supEnd i), {})
  | .shutdownTask => (s.addWake .shut, {})
  | .sigterm => (s.addWake .sig, {})
  | .tick =>
    let r := tickFold s.wake ({ s with wake := [] }, [])
    (r.1, { dels := r.2 })
  | .finish =>
    if s.phase == .cleanup then ({ s with phase := .done }.notifyRun, {}) else (s, {})

/-- run a whole history; the deliveries are collected in order -/
def run (s : St) (ops : List Op) : St × List Err :=
  ops.foldl (fun acc op => let r := step acc.1 op; (r.1, acc.2 ++ r.2.dels)) (s, [])

def final (s : St) (ops : List Op) : St := (run s ops).1
def deliveries (s : St) (ops : List Op) : List Err := (run s ops).2

/-! ### what the API reports once the simulation task is done -/

/-- `wait_init()` awaited from before the start of the task (state `s`, the start-up will fail with `initErr` if
    given) until it returns.  What the code does: `_check_started` yields once, so the task has begun; when an
    error was recorded before the start, run_forever raises it before `self._init_done` is created and
    wait_init() fails with AttributeError (not EdzedInvalidState); when the start-up fails, the task ends first:
    EdzedInvalidState; otherwise it returns when the initialisation is complete -/
def waitInitReply (s : St) (initErr : Option Nat) : Reply :=
  match s.error, initErr with
  | some _, _ => .attributeError
  | none, some _ => .invalidState
  | none, none => if s.earlyFail then .invalidState else .ok

/-- `await simtask` / `run_forever()` raises `_error` -/
def runForeverRaises (s : St) : Option Err := s.error

/-- `shutdown()`: `except CancelledError: pass`, anything else propagates -/
def shutdownRaises (s : St) : Option Err :=
  match s.error with
  | some e => if e.isCancel then none else some e
  | none => none

/-- first failing supporting coroutine in the order of run()'s arguments -/
def firstSupError (done : List (Nat × Option Nat)) (n : Nat) : Option Nat :=
  (List.range n).findSome? fun i => (done.find? fun p => p.1 == i && p.2.isSome).bind (·.2)

/-- `run()`: the simulator's error unless it is a cancellation, otherwise the error of the
    first failing supporting task, otherwise None -/
def runRaises (s : St) (nsup : Nat) : Option Err :=
  match shutdownRaises s with
  | some e => some e
  | none => (firstSupError s.supDone nsup).map Err.exc

end Edzed.ErrorReg
