/-
Model of one *burst* of the simulator loop `Circuit._simulate` (edzed/simulator.py): everything
the loop does between two pauses (`await queue.get()`), with the evaluation counter `eval_cnt`,
the limit `eval_limit = _MAX_EVALS_PER_BLOCK * len(circuit._blocks)` (ALL blocks are counted:
SBlocks, CBlocks and the automatically created inverters; Const objects are not blocks) and the
instability error.  C10.

The single loop iteration (`evalOp`: drain the queue, count, compare with the limit, evaluate the
chosen block) and the pause (`idleOp`: nothing pending, the counter restarts) are C01's
definitions in `EdzedModel/Simulate.lean`; this file adds the loop around them, the path-count
potential used for the "a settling DAG is never reported" half of the property, and the
specification of `select_blk`.
-/
import EdzedModel.Simulate

namespace Edzed.Burst
open Edzed.Sim

/-- how a burst ended -/
inductive End where
  | idle        -- nothing pending: the loop pauses, eval_cnt restarts
  | unstable    -- EdzedCircuitError("Circuit instability detected …")
  | illegal     -- the recorded choice is not a block the loop could have taken
  | more        -- the list of choices is exhausted, the loop would go on
  deriving Repr, Inhabited, DecidableEq

structure Res where
  st  : St Val
  log : List Bool          -- one entry per evaluation: did the output change
  fin : End

def Res.evals (r : Res) : Nat := r.log.length

/-- the check `eval_cnt > eval_limit` fires (it comes before the block is selected, so it does not
    depend on the choice) -/
def unstableNow (c : Circuit) (s : St Val) : Bool :=
  match (evalOp c s 0).2 with
  | .instability => true
  | _ => false

/-- The loop from the current state up to the next pause or error; `choices` are the blocks taken
    from the eval set, in order. -/
def burst (c : Circuit) (s : St Val) : List Nat → Res
  | [] =>
    match idleOp c s with
    | some s' => ⟨s', [], .idle⟩
    | none => if unstableNow c s then ⟨drain c.net s, [], .unstable⟩ else ⟨s, [], .more⟩
  | b :: bs =>
    match evalOp c s b with
    | (s1, .ok ch _) => let r := burst c s1 bs; ⟨r.st, ch :: r.log, r.fin⟩
    | (s1, .instability) => ⟨s1, [], .unstable⟩
    | (s1, .illegalChoice) => ⟨s1, [], .illegal⟩

/-! ### the potential: number of paths -/

def listSum (P : Nat → Nat) : List Nat → Nat
  | [] => 0
  | x :: xs => P x + listSum P xs

/-- weighted size of a pending set (mask over the blocks `0 .. k-1`) -/
def wsum (P : Nat → Nat) (E : Nat → Bool) : Nat → Nat
  | 0 => 0
  | k + 1 => wsum P E k + (if E k then P k else 0)

/-- weight of the blocks an SBlock wakes up -/
def sWeight {V : Type} (net : Net V) (P : Nat → Nat) (i : Nat) : Nat := listSum P (net.succS i)

/-- weight of everything pending: the eval set plus what the queued SBlocks will add to it -/
def phi {V : Type} (net : Net V) (P : Nat → Nat) (s : St V) : Nat :=
  wsum P s.E net.n + listSum (sWeight net P) s.Q

/-- destinations of the on_output events of CBlock `b` -/
def evDests (c : Circuit) (b : Nat) : List Nat := (c.blk b).events.map (·.1)

/-- `P` is a potential: a block weighs more than everything a change of its output can wake up –
    its `oconnections` and, through its on_output events, the `oconnections` of the destination
    SBlocks.  The least such `P b` is the number of paths that start in `b`. -/
def IsPot (c : Circuit) (P : Nat → Nat) : Prop :=
  ∀ b, b < c.cblocks.length →
    1 + listSum P (c.net.succC b) + listSum (sWeight c.net P) (evDests c b) ≤ P b

def isPotB (c : Circuit) (P : Nat → Nat) : Bool :=
  (List.range c.cblocks.length).all fun b =>
    decide (1 + listSum P (c.net.succC b) + listSum (sWeight c.net P) (evDests c b) ≤ P b)

def tbl (l : List Nat) : Nat → Nat := fun b => l.getD b 0

def potStep (c : Circuit) (l : List Nat) : List Nat :=
  (List.range c.cblocks.length).map fun b =>
    1 + listSum (tbl l) (c.net.succC b) + listSum (sWeight c.net (tbl l)) (evDests c b)

def potIter (c : Circuit) : Nat → List Nat
  | 0 => List.replicate c.cblocks.length 0
  | k + 1 => potStep c (potIter c k)

/-- number of paths (of at most `n` blocks) starting in each block; a potential iff the circuit
    with its event feedback is acyclic -/
def pathTable (c : Circuit) : List Nat := potIter c c.cblocks.length

/-! ### `select_blk` -/

/-- number of inputs of `b` connected to a block of the set (`iconnections` is a set of blocks:
    every predecessor counts once) -/
def idep (c : Circuit) (E : Nat → Bool) (b : Nat) : Nat :=
  ((cIns (c.blk b)).eraseDups.filter E).length

/-- what `select_blk` may return, whatever the iteration order of the Python set: a block without
    pending predecessors if there is one, otherwise one with the minimum number of them -/
def selectOk (c : Circuit) (E : Nat → Bool) (b : Nat) : Bool :=
  E b && decide (b < c.cblocks.length) &&
  (idep c E b == 0 ||
   (List.range c.cblocks.length).all fun x => !E x || (idep c E x != 0 && idep c E b ≤ idep c E x))

/-- all choices of a burst are choices `select_blk` can make (checked against the eval set after
    the queue was drained, as in the loop) -/
def choicesOk (c : Circuit) (s : St Val) : List Nat → Bool
  | [] => true
  | b :: bs => selectOk c (drain c.net s).E b && choicesOk c (evalOp c s b).1 bs

end Edzed.Burst
