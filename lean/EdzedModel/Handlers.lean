/-
Model of the per-class table of event handlers, `SBlock._ct_handlers`, built by
`SBlock.__init_subclass__` (edzed/block.py) when a block class is created.

A class is described by what the construction looks at: is it `SBlock` itself, a subclass of `SBlock`, a
subclass of `Addon`, and the names defined in its body in definition order (`vars(cls)`).  The table maps an
event type to the method `_event_<etype>`; the classes are visited in MRO order and the first definition
wins (this is how an `_event_put` of a subclass or of an add-on overrides the inherited one).  An add-on that
comes after `SBlock` in the MRO is refused with TypeError.
-/

namespace Edzed.Handlers

structure ClassD where
  name : String
  isSBlock : Bool        -- the class `SBlock` itself
  subSBlock : Bool       -- `issubclass(cls, SBlock)`
  addon : Bool           -- `issubclass(cls, Addon)`
  methods : List String  -- the names in `vars(cls)`, in definition order
  deriving Repr, DecidableEq, Inhabited

/-- `n.removeprefix(p)` when the prefix is there -/
def stripPrefix (p n : String) : Option String :=
  if p.toList.isPrefixOf n.toList then some (String.ofList (n.toList.drop p.length)) else none

/-- `_event_NAME` ↦ `NAME`; `none` for a name without the prefix (the bare `_event_` gives the empty type) -/
def eventName (n : String) : Option String := stripPrefix "_event_" n

/-- event type ↦ the method that handles it, named `Class.method` -/
abbrev Table := List (String × String)

def Table.lookup (t : Table) (e : String) : Option String := (t.find? (·.1 == e)).map (·.2)

/-- one name of a class body: stored unless the event type has a handler already -/
def addName (c : ClassD) (t : Table) (n : String) : Table :=
  match eventName n with
  | some e => if t.any (·.1 == e) then t else t ++ [(e, c.name ++ "." ++ n)]
  | none => t

def addMethods (c : ClassD) (t : Table) : Table := c.methods.foldl (addName c) t

/-- the classes whose bodies are searched: SBlock, its subclasses, the add-ons (not `object`, `Block`, …) -/
def ClassD.eligible (c : ClassD) : Bool := c.subSBlock || c.addon

def addClass (t : Table) (c : ClassD) : Table := if c.eligible then addMethods c t else t

/-- `cls._ct_handlers` for a class with the given MRO -/
def handlerTable (mro : List ClassD) : Table := mro.foldl addClass []

/-- "all add-ons precede the SBlock in the class hierarchy": no add-on after SBlock in the MRO -/
def orderOk : List ClassD → Bool
  | [] => true
  | c :: rest => if c.isSBlock then rest.all (fun x => !x.addon) else orderOk rest

/-- the class is created with this table, or its creation fails with TypeError -/
def buildHandlers (mro : List ClassD) : Except String Table :=
  if orderOk mro then .ok (handlerTable mro) else .error "TypeError"

/-- the first definition of `_event_<e>` in MRO order among the eligible classes -/
def firstInMro (mro : List ClassD) (e : String) : Option String :=
  (mro.filter ClassD.eligible).findSome? fun c =>
    (c.methods.find? (fun n => eventName n == some e)).map (fun n => c.name ++ "." ++ n)

end Edzed.Handlers
