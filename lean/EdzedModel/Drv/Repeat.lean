-- driver-prefix: repeat
import EdzedModel.Repeat

/-!
Line protocol of the Repeat model (parsing / printing only).

```
repeat reset <name> <etype> <interval µs> <count|n> [<name2> <etype2> <interval2> <count2|n>]
                                         -> ok | err ValueError     (second group: a chain of two)
repeat event <t µs> <B|T|A> <etype> <data> <flags|->   -> log <t>@<etype>@<data>|… out <o1> [<o2>]
repeat advance <t µs> <flags|->                           -> same
repeat stop                                               -> ok
```
names and types are `s<hex>` values, `flags` a string over `a`/`b` (one recorded choice per
repetition sent by the upstream block of a chain: `a` = the downstream timeout came first)
-/

namespace Edzed.Repeat

structure DState where
  c1 : Cfg := default
  c2 : Option Cfg := none
  s : State := {}
  ch : Chain := {}
  deriving Inhabited

def parseStr (s : String) : Option String :=
  match Val.parse s with
  | some (.atom (.str x)) => some x
  | _ => none

def parseCount (s : String) : Option (Option Int) :=
  if s == "n" then some none else s.toInt?.map some

def parsePlacement : String → Option Placement
  | "B" => some .B
  | "T" => some .T
  | "A" => some .A
  | _ => none

def parseFlags (s : String) : Option (List Bool) :=
  if s == "-" then some []
  else s.toList.mapM fun c => if c == 'a' then some true else if c == 'b' then some false else none

/-- `some none`: the constructor raises ValueError -/
def parseCfg (n e i k : String) : Option (Option Cfg) :=
  match parseStr n, parseStr e, i.toInt?, parseCount k with
  | some n, some e, some i, some k => some (Cfg.make? n e i k)
  | _, _, _, _ => none

def renderSent (x : Sent) : String :=
  s!"{x.t}@{(Val.str x.etype).render}@{Data.render x.data}"

def renderLog (xs : List Sent) : String :=
  if xs.isEmpty then "log -" else "log " ++ "|".intercalate (xs.map renderSent)

def reply1 (d : DState) (r : State × List Sent) : DState × String :=
  ({ d with s := r.1 }, s!"{renderLog r.2} out {r.1.out}")

def reply2 (d : DState) : Option (Chain × List Sent) → DState × String
  | some r => ({ d with ch := r.1 }, s!"{renderLog r.2} out {r.1.s1.out} {r.1.s2.out}")
  | none => (d, "err IllegalChoice")

def handle (d : DState) : List String → DState × String
  | ["reset", n, e, i, k] =>
    match parseCfg n e i k with
    | some (some c) => ({ c1 := c }, "ok")
    | some none => (d, "err ValueError")
    | none => (d, "bad-op")
  | ["reset", n, e, i, k, n2, e2, i2, k2] =>
    match parseCfg n e i k, parseCfg n2 e2 i2 k2 with
    | some (some c), some (some c2) => ({ c1 := c, c2 := some c2 }, "ok")
    | some _, some _ => (d, "err ValueError")
    | _, _ => (d, "bad-op")
  | ["event", t, pl, e, data, fl] =>
    match t.toNat?, parsePlacement pl, parseStr e, Data.parse data, parseFlags fl with
    | some t, some pl, some e, some data, some fl =>
      match d.c2 with
      | none => if fl.isEmpty then reply1 d (event d.c1 d.s t pl e data) else (d, "err IllegalChoice")
      | some c2 => reply2 d (Chain.event d.c1 c2 d.ch t pl e data fl)
    | _, _, _, _, _ => (d, "bad-op")
  | ["advance", t, fl] =>
    match t.toNat?, parseFlags fl with
    | some t, some fl =>
      match d.c2 with
      | none => if fl.isEmpty then reply1 d (advance d.c1 d.s t) else (d, "err IllegalChoice")
      | some c2 => reply2 d (Chain.advance d.c1 c2 d.ch t fl)
    | _, _ => (d, "bad-op")
  | ["stop"] => ({ d with s := stop d.s, ch := d.ch.stop }, "ok")
  | _ => (d, "bad-op")

end Edzed.Repeat
