-- driver-prefix: repeat
import EdzedModel.Repeat
import EdzedModel.RepeatCtor

/-!
Line protocol of the Repeat model (parsing / printing only).

```
repeat reset <name> <etype> <interval µs> <count|n> [<name2> <etype2> <interval2> <count2|n>]
                                         -> ok | err ValueError     (second group: a chain of two)
repeat event <t µs> <B|T|A> <x|d> <etype> <data> <flags|-> <answers|->
                                  -> log <t>@<etype>@<data>[!u|!e]|… out <o1> [<o2>] <run|end> ret <ok|u|e|notready>
repeat advance <t µs> <flags|-> <answers|->            -> log … out … <run|end>
repeat stop                                               -> ok
repeat ctor <R|E> <etype: s<hex>|C|T|O> <interval value|-> <count|n>
                     -> ok <interval num/den> <count|n> | ok plain | ok repeat <interval> <count|n> | err <Class>
```
`ctor R`: `Repeat(dest=, etype=, interval=, count=)`; `ctor E`: `Event(dest, etype[, repeat=interval], count=)`
(`C` an EventCond, `T` another EventType object, `O` an object that is neither)
`x`: sent with `ExtEvent.send` (needs a running simulation), `d`: `block.event()` called directly;
`answers`: a string over `o`/`u`/`e` – what the destination answers to the deliveries of this step
(accepted / EdzedUnknownEvent / another exception), all of them must be consumed;
names and types are `s<hex>` values, `flags` a string over `a`/`b` (one recorded choice per
repetition sent by the upstream block of a chain: `a` = the downstream timeout came first)
-/

namespace Edzed.Repeat

structure DState where
  c1 : Cfg := default
  c2 : Option Cfg := none
  s : State := {}
  ch : Chain := {}
  deriving Inhabited

def parseStr (s : String) : Option String :=
  match Val.parse s with
  | some (.atom (.str x)) => some x
  | _ => none

def parseCount (s : String) : Option (Option Int) :=
  if s == "n" then some none else s.toInt?.map some

def parsePlacement : String → Option Placement
  | "B" => some .B
  | "T" => some .T
  | "A" => some .A
  | _ => none

def parseFlags (s : String) : Option (List Bool) :=
  if s == "-" then some []
  else s.toList.mapM fun c => if c == 'a' then some true else if c == 'b' then some false else none

/-- `some none`: the constructor raises ValueError -/
def parseCfg (n e i k : String) : Option (Option Cfg) :=
  match parseStr n, parseStr e, i.toInt?, parseCount k with
  | some n, some e, some i, some k => some (Cfg.make? n e i k)
  | _, _, _, _ => none

def parseAnswers (s : String) : Option (List Resp) :=
  if s == "-" then some []
  else s.toList.mapM fun c =>
    if c == 'o' then some Resp.ok else if c == 'u' then some Resp.unknown
    else if c == 'e' then some Resp.fatal else none

def parseExt : String → Option Bool
  | "x" => some true
  | "d" => some false
  | _ => none

def renderResp : Resp → String
  | .ok => ""
  | .unknown => "!u"
  | .fatal => "!e"

def renderRet : Ret → String
  | .ok => "ok"
  | .unknown => "u"
  | .fatal => "e"
  | .notReady => "notready"

def renderRun (s : State) : String := if s.stopped then "end" else "run"

def renderSent (x : Sent) : String :=
  s!"{x.t}@{(Val.str x.etype).render}@{Data.render x.data}{renderResp x.resp}"

def renderLog (xs : List Sent) : String :=
  if xs.isEmpty then "log -" else "log " ++ "|".intercalate (xs.map renderSent)

/-- all scripted answers must have been consumed -/
def reply1 (d : DState) (r : State × List Sent) (ret : String) : DState × String :=
  if r.1.resp.isEmpty then
    ({ d with s := r.1 }, s!"{renderLog r.2} out {r.1.out} {renderRun r.1}{ret}")
  else (d, "err IllegalChoice")

def reply2 (d : DState) (ret : String) : Option (Chain × List Sent) → DState × String
  | some r => ({ d with ch := r.1 },
      s!"{renderLog r.2} out {r.1.s1.out} {r.1.s2.out} {renderRun r.1.s1}{ret}")
  | none => (d, "err IllegalChoice")

def parseETy (s : String) : Option Gen.TrC.ETy :=
  if s == "C" then some .eventCond
  else if s == "T" then some .eventType
  else if s == "O" then some (.other true)
  else (parseStr s).map .str

def renderCount : Option Int → String
  | none => "n"
  | some n => toString n

def handleCtor (via ety iv cnt : String) : String :=
  -- `repeat=None` is "no repetition": Python's optional argument
  match parseETy ety, (if iv == "-" || (via == "E" && iv == "n") then some none else (Val.parse iv).map some),
      parseCount cnt with
  | some ety, some iv, some cnt =>
    let dest : Gen.TrC.Dest := .block "p"
    if via == "R" then
      match iv with
      | none => "bad-op"
      | some v =>
        match RepeatCtor.repeatNew dest ety v cnt with
        | .ok rc => s!"ok {ratRender rc.interval} {renderCount rc.count}"
        | .error e => "err " ++ e
    else if via == "E" then
      match RepeatCtor.eventNew dest ety iv cnt true with
      | .ok ⟨.repeatOf d e i c, e2⟩ =>
        if d == dest && e == ety && e2 == ety then s!"ok repeat {ratRender i} {renderCount c}" else "ok misdirected"
      | .ok ⟨d, e2⟩ => if d == dest && e2 == ety then "ok plain" else "ok misdirected"
      | .error e => "err " ++ e
    else "bad-op"
  | _, _, _ => "bad-op"

def handle (d : DState) : List String → DState × String
  | ["reset", n, e, i, k] =>
    match parseCfg n e i k with
    | some (some c) => ({ c1 := c }, "ok")
    | some none => (d, "err ValueError")
    | none => (d, "bad-op")
  | ["reset", n, e, i, k, n2, e2, i2, k2] =>
    match parseCfg n e i k, parseCfg n2 e2 i2 k2 with
    | some (some c), some (some c2) => ({ c1 := c, c2 := some c2 }, "ok")
    | some _, some _ => (d, "err ValueError")
    | _, _ => (d, "bad-op")
  | ["event", t, pl, x, e, data, fl, an] =>
    match t.toNat?, parsePlacement pl, parseExt x, parseStr e, Data.parse data, parseFlags fl,
        parseAnswers an with
    | some t, some pl, some x, some e, some data, some fl, some an =>
      match d.c2 with
      | none =>
        if fl.isEmpty then
          let r := deliver d.c1 { d.s with resp := an } t pl e data x
          reply1 d (r.1, r.2.1) (" ret " ++ renderRet r.2.2)
        else (d, "err IllegalChoice")
      | some c2 =>
        -- chains are explored with an accepting destination and a running simulation only
        if an.isEmpty && !(x && d.ch.s1.stopped) then
          reply2 d " ret ok" (Chain.event d.c1 c2 d.ch t pl e data fl)
        else (d, "err IllegalChoice")
    | _, _, _, _, _, _, _ => (d, "bad-op")
  | ["advance", t, fl, an] =>
    match t.toNat?, parseFlags fl, parseAnswers an with
    | some t, some fl, some an =>
      match d.c2 with
      | none =>
        if fl.isEmpty then reply1 d (advance d.c1 { d.s with resp := an } t) ""
        else (d, "err IllegalChoice")
      | some c2 =>
        if an.isEmpty then reply2 d "" (Chain.advance d.c1 c2 d.ch t fl) else (d, "err IllegalChoice")
    | _, _, _ => (d, "bad-op")
  | ["ctor", via, ety, iv, cnt] => (d, handleCtor via ety iv cnt)
  | ["stop"] => ({ d with s := stop d.s, ch := d.ch.stop }, "ok")
  | _ => (d, "bad-op")

end Edzed.Repeat
