-- driver-prefix: persist
/- line-protocol glue for the persistent-state model (parsing / printing only) -/
import EdzedModel.Persist

namespace Edzed.Persist

structure DState where
  circ : Circ := { blocks := [], store := [] }
  faults : Faults := {}          -- which storage operations raise at the moment
  deriving Inhabited

def splitF (s : String) (sep : String) : List String :=
  if s == "-" || s == "" then [] else s.splitOn sep

def nameOk (s : String) : Bool := !s.isEmpty && s.toList.all fun c => c.isAlphanum || c == '_'

def parseName (s : String) : Option String := if nameOk s then some s else none

def parseOptNat (s : String) : Option (Option Nat) :=
  if s == "n" then some none else s.toNat?.map some

def parseOptInt (s : String) : Option (Option Int) :=
  if s == "n" then some none else s.toInt?.map some

def parseBit (s : String) : Option Bool :=
  if s == "1" then some true else if s == "0" then some false else none

def parseTEv (s : String) : Option TEv :=
  match s.splitOn "." with
  | ["E", e] => TEv.ev <$> parseName e
  | ["G", g] => TEv.goto <$> parseName g
  | _ => none

def parseTrans (s : String) : Option (String × Option String × String) :=
  match s.splitOn "~" with
  | [e, f, t] => do
    let e ← parseName e
    let t ← parseName t
    let f ← if f == "*" then some none else (parseName f).map some
    pure (e, f, t)
  | _ => none

def parseTimer (s : String) : Option (String × Option Nat × TEv) :=
  match s.splitOn "~" with
  | [st, d, ev] => do
    let st ← parseName st
    let d ← if d == "inf" then some none else d.toNat?.map some
    let ev ← parseTEv ev
    pure (st, d, ev)
  | _ => none

def parseCond (s : String) : Option (String × Cond) :=
  match s.splitOn "~" with
  | [e, "yes"] => (·, Cond.yes) <$> parseName e
  | [e, "no"] => (·, Cond.no) <$> parseName e
  | [e, "put"] => (·, Cond.putInput) <$> parseName e
  | [e, "raise"] => (·, Cond.raise) <$> parseName e
  | [e, "ne", st] => do pure (← parseName e, Cond.stateNe (← parseName st))
  | _ => none

def parseEnter (s : String) : Option (String × Enter) :=
  match s.splitOn "~" with
  | [st, "nop"] => (·, Enter.nop) <$> parseName st
  | [st, "raise"] => (·, Enter.raise) <$> parseName st
  | [st, "set", k, v] => do pure (← parseName st, Enter.setS (← parseName k) (← Val.parse v))
  | [st, "chain", e] => do pure (← parseName st, Enter.chain (← parseName e))
  | [st, "goto", t] => do pure (← parseName st, Enter.goto (← parseName t))
  | _ => none

def parseOutMode (s : String) : Option OutMode :=
  match s.splitOn "~" with
  | ["state"] => some .state
  | ["is", st] => OutMode.isState <$> parseName st
  | ["iexp", v] => OutMode.inputExp <$> Val.parse v
  | _ => none

def parseKind : List String → Option Kind
  | ["input", i] => Kind.input <$> Val.parse i
  | ["counter", m, i] => do
    let m ← parseOptInt m
    if m == some 0 then none else pure (Kind.counter m (← i.toInt?))
  | ["cal", c] => Kind.cal <$> Val.parse c
  | ["fsm", sts, trs, tms, cds, ens, om, ist, isd] => do
    pure (Kind.fsm {
      states := ← (splitF sts "&").mapM parseName
      trans := ← (splitF trs "&").mapM parseTrans
      timers := ← (splitF tms "&").mapM parseTimer
      conds := ← (splitF cds "&").mapM parseCond
      enters := ← (splitF ens "&").mapM parseEnter
      outMode := ← parseOutMode om
      initState := ← parseName ist
      initSdata := ← Data.parse isd })
  | _ => none

def parseEntry (s : String) : Option Entry :=
  match s.splitOn "~" with
  | ["v", v] => Entry.val <$> Val.parse v
  | ["T", t] => Entry.ts <$> t.toNat?
  | ["m", st, e, d] => do pure (.fsm (← parseName st) (← parseOptNat e) (← Data.parse d))
  | _ => none

def parseStore (s : String) : Option Storage :=
  (splitF s "&").foldlM (fun acc item =>
    match item.splitOn "^" with
    | [k, e] => do pure (Storage.set acc (← hexDecode k) (← parseEntry e))
    | _ => none) []

def parseEv (name : String) (arg : String) : Option Ev :=
  let a : Option (Option Val) := if arg == "-" then some none else (Val.parse arg).map some
  match name.splitOn "." with
  | ["put"] => Ev.put <$> a
  | ["inc"] => Ev.inc <$> a
  | ["dec"] => Ev.dec <$> a
  | ["reset"] => if arg == "-" then some .reset else none
  | ["reconfig"] => match a with
    | some (some c) => some (.reconfig c)
    | _ => none
  | ["n", e] => do pure (.named (← parseName e) (← a))
  | ["goto", st] => if arg == "-" then Ev.goto <$> parseName st else none
  | _ => none

/-- calendar table of the current instant: `d{<config as string>=b0|b1}`; a configuration
    that is not listed is refused -/
def parseCal (s : String) : Option (Val → Option Bool) := do
  let d ← Data.parse s
  pure fun cfg => match cfg with
    | .atom (.str k) => match d.get? (hexEncode k) with
      | some v => some v.truthy
      | none => none
    | _ => none

/-! printing -/

def renderOptNat : Option Nat → String
  | none => "n"
  | some t => toString t

def renderTEv : TEv → String
  | .ev e => "E." ++ e
  | .goto s => "G." ++ s

def renderEntry : Entry → String
  | .val v => "v~" ++ v.render
  | .ts t => "T~" ++ toString t
  | .fsm st e d => "m~" ++ st ++ "~" ++ renderOptNat e ++ "~" ++ Data.render d

def insertByKey (p : String × String) : List (String × String) → List (String × String)
  | [] => [p]
  | q :: r => if p.1 < q.1 then p :: q :: r else q :: insertByKey p r

def renderStore (s : Storage) : String :=
  let items := (s.map fun p => (hexEncode p.1, renderEntry p.2)).foldr insertByKey []
  if items.isEmpty then "-" else "&".intercalate (items.map fun p => p.1 ++ "^" ++ p.2)

def renderBlk (b : Blk) : String :=
  let d := b.dyn
  let t := match d.timer with
    | none => "n"
    | some (w, ev) => toString w ++ "." ++ renderTEv ev
  s!"P{if b.persistent then 1 else 0}:I{if d.inited then 1 else 0}:v={d.value.render}:o={d.out.render}"
    ++ s!":s={if d.fstate.isEmpty then "-" else d.fstate}:t={t}:d={Data.render d.sdata}"
    ++ s!":e={if d.entered.isEmpty then "-" else ",".intercalate d.entered}:r={if b.restored then 1 else 0}"

def renderPhase : Phase → String
  | .idle => "idle" | .running => "running" | .aborted => "aborted" | .failed => "failed" | .stopped => "stopped"
  | .stopping => "stopping" | .stoppingF => "stoppingF"

def renderRes : Res → String
  | .ret v => "ret " ++ v.render
  | .paramError => "err ParamError"
  | .unknown => "err UnknownEvent"
  | .handlerError => "err Abort"

/-- the storage after every write made during one event: `W=-` or `W=<store>|<store>…` -/
def renderWrites (ws : List Storage) : String :=
  "W=" ++ (if ws.isEmpty then "-" else "|".intercalate (ws.map renderStore))

def renderCirc (c : Circ) : String :=
  s!"ph={renderPhase c.phase} ts={renderOptNat c.ts} B "
    ++ " ".intercalate (c.blocks.map renderBlk) ++ " S " ++ renderStore c.store

/-- `-` or `L<dest>.<etrue>.<efalse>` -/
def parseLink (s : String) : Option (Option Link) :=
  if s == "-" then some none else
  match s.toList with
  | 'L' :: r =>
    match (String.ofList r).splitOn "." with
    | [d, t, f] => do pure (some { dest := ← d.toNat?, etrue := ← parseBit t, efalse := ← parseBit f })
    | _ => none
  | _ => none

def hasLink (c : Circ) (i : Nat) : Bool :=
  match c.blocks[i]? with
  | some b => b.link.isSome
  | none => false

/-- circuits without links start with `Circ.start`, circuits with links with `Circ.startL` (mode ok only) -/
def startAny (c : Circ) (f : Faults) (cal : Val → Option Bool) (now : Nat) (m : StartMode) : Option Circ :=
  if f != {} then
    -- a storage whose reads / purge fail: mode ok, no links, writes work
    (if m == .ok && c.blocks.all (·.link.isNone) && !f.write then some (c.startF f cal now) else none)
  else if c.blocks.all (·.link.isNone) then some (c.start cal now m)
  else if m == .ok then some (c.startL cal now) else none

def renderResF : ResF → String
  | .res r => renderRes r
  | .saveError => "err StorageError"

def handle (s : DState) : List String → DState × String
  | ["reset"] => ({ circ := { blocks := [], store := [] } }, "ok")
  | "blk" :: k :: p :: sy :: ex :: lk :: kind =>
    -- the constructor arguments persistent / sync_state / expiration (seconds) as the application writes them
    match hexDecode k, Val.parse p, Val.parse sy, Val.parse ex, parseLink lk, parseKind kind with
    | some k, some p, some sy, some ex, some lk, some kind =>
      if s.circ.phase != .idle then (s, "bad-op") else
      match mkBlk k kind { persistent := p, syncState := sy, expiration := ex } lk with
      | .ok b => ({ s with circ := { s.circ with blocks := s.circ.blocks ++ [b] } }, "ok")
      | .error .type => (s, "err TypeError")
      | .error (.value _) => (s, "err ValueError")
    | _, _, _, _, _, _ => (s, "bad-op")
  | ["store", st] =>
    match parseStore st with
    | some st => if s.circ.phase != .idle then (s, "bad-op") else
      ({ circ := { s.circ with store := st } }, "ok " ++ renderStore st)
    | none => (s, "bad-op")
  | ["start", now, mode, cal] =>
    let m : Option StartMode := match mode with
      | "ok" => some .ok | "aborted" => some .abortedBefore | "raises" => some .startRaises | _ => none
    match now.toNat?, m, parseCal cal with
    | some now, some m, some cal =>
      if s.circ.phase != .idle then (s, "bad-op") else
      match startAny s.circ s.faults cal now m with
      | some c => ({ s with circ := c }, renderCirc c)
      | none => (s, "err not-modelled")
    | _, _, _ => (s, "bad-op")
  | ["startstop", now, mode, cal, tstop] =>
    let m : Option StartMode := match mode with
      | "ok" => some .ok | "aborted" => some .abortedBefore | "raises" => some .startRaises
      | "raises0" => some .startRaises | _ => none
    match now.toNat?, m, parseCal cal, tstop.toNat? with
    | some now, some m, some cal, some tstop =>
      if s.circ.phase != .idle then (s, "bad-op") else
      -- "raises0": the failing `start()` was the first one, no block of the model was started (or is stopped)
      match startAny { s.circ with started := mode != "raises0" } s.faults cal now m with
      | some c0 =>
        -- (the stop of a failed start happens on the same storage: with its faults, if any)
        let c := if s.faults != {} then (c0.stopBeginF s.faults tstop).stopEnd tstop true else c0.stop tstop
        ({ s with circ := c }, renderCirc c)
      | none => (s, "err not-modelled")
    | _, _, _, _ => (s, "bad-op")
  | ["ev", i, name, arg, cal] =>
    match i.toNat?, parseEv name arg, parseCal cal with
    | some i, some ev, some cal =>
      if hasLink s.circ i then (s, "err not-modelled") else      -- (an output change would send an event)
      if s.faults != {} then
        match s.circ.eventF s.faults cal i ev with
        | some (c, r) => ({ s with circ := c }, renderResF r ++ " " ++ renderCirc c)
        | none => (s, "err not-possible")
      else
      match s.circ.eventN cal i ev with
      | some (c, r, ws) => ({ s with circ := c }, renderRes r ++ " " ++ renderWrites ws ++ " " ++ renderCirc c)
      | none => (s, "err not-possible")
    | _, _, _ => (s, "bad-op")
  | ["fire", i, cal] =>
    match i.toNat?, parseCal cal with
    | some i, some cal =>
      if s.faults != {} then
        match s.circ.fireF s.faults cal i with
        | some (c, r) => ({ s with circ := c }, s!"at={c.now} " ++ renderResF r ++ " " ++ renderCirc c)
        | none => (s, "err not-possible")
      else
      match s.circ.fireN cal i with
      | some (c, r, ws) =>
        ({ s with circ := c }, s!"at={c.now} " ++ renderRes r ++ " " ++ renderWrites ws ++ " " ++ renderCirc c)
      | none => (s, "err not-possible")
    | _, _ => (s, "bad-op")
  | ["adv", t] =>
    match t.toNat? with
    | some t => match s.circ.advance t with
      | some c => ({ s with circ := c }, renderCirc c)
      | none => (s, "err not-possible")
    | none => (s, "bad-op")
  | ["stopbegin", t] =>
    match t.toNat? with
    | some t =>
      if s.circ.phase != .running && s.circ.phase != .aborted && s.circ.phase != .failed then (s, "err not-possible")
      else let c := s.circ.stopBegin t; ({ s with circ := c }, renderCirc c)
    | none => (s, "bad-op")
  | ["stopend", t, k] =>
    match t.toNat?, parseBit k with
    | some t, some k =>
      if s.circ.phase != .stopping && s.circ.phase != .stoppingF then (s, "err not-possible")
      else let c := s.circ.stopEnd t k; ({ s with circ := c }, renderCirc c)
    | _, _ => (s, "bad-op")
  | ["fault", w, d, i, rd] =>
    -- `rd`: the keys whose read raises, hex, `&`-separated
    match parseBit w, parseBit d, parseBit i, (splitF rd "&").mapM hexDecode with
    | some w, some d, some i, some rd =>
      ({ s with faults := { write := w, remove := d, iter := i, read := rd } }, "ok")
    | _, _, _, _ => (s, "bad-op")
  | ["stopf", t] =>
    -- a stop (clean-up without delay) on the storage with the current faults
    match t.toNat? with
    | some t =>
      if s.circ.phase != .running && s.circ.phase != .aborted && s.circ.phase != .failed then (s, "err not-possible")
      else
        let c := (s.circ.stopBeginF s.faults t).stopEnd t true
        ({ s with circ := c }, "done " ++ renderCirc c)
    | none => (s, "bad-op")
  | ["stop", t] =>
    match t.toNat? with
    | some t => let c := s.circ.stop t; ({ s with circ := c }, renderCirc c)
    | none => (s, "bad-op")
  | _ => (s, "bad-op")

end Edzed.Persist
