-- driver-prefix: burst Burst
/- line-protocol glue for the burst model (parsing / printing only; the circuit syntax is the
   one of the simulator model) -/
import EdzedModel.Burst
import EdzedModel.Drv.Simulate

namespace Edzed.Burst
open Edzed.Sim

structure DState where
  circ : Circuit := default
  st : St Val := { outC := fun _ => .undef, outS := fun _ => .undef, E := fun _ => false, Q := [] }
  ns : Nat := 0
  pot : Option (List Nat) := none      -- the path table when it is a potential

instance : Inhabited DState := ⟨{}⟩

def outsStr (d : DState) : String :=
  Sim.outsStr { circ := d.circ, st := d.st, ns := d.ns }

def natList (l : List Nat) : String := ";".intercalate (l.map toString)

def parseChoices (s : String) : Option (List Nat) :=
  if s == "-" then some [] else (s.splitOn ",").mapM String.toNat?

def handle (d : DState) : List String → DState × String
  | "reset" :: rest =>
    let (sd, r) := Sim.handle {} ("reset" :: rest)
    if r != "ok" then (d, "bad-op") else
    let t := pathTable sd.circ
    let pot := if isPotB sd.circ (tbl t) then some t else none
    ({ circ := sd.circ, st := sd.st, ns := sd.ns, pot := pot },
      s!"ok limit={sd.circ.limit} pot={match pot with | some t => natList t | none => "x"}")
  | ["run", ch] =>
    match parseChoices ch with
    | none => (d, "bad-op")
    | some choices =>
      let bound := match d.pot with
        | some t => toString (phi d.circ.net (tbl t) d.st)
        | none => "x"
      let sel := if choicesOk d.circ d.st choices then "1" else "0"
      let r := burst d.circ d.st choices
      let d' := { d with st := r.st }
      let fin := match r.fin with
        | .idle => "idle" | .unstable => "unstable" | .illegal => "illegal" | .more => "more"
      (d', s!"{fin} n={r.evals} chg={String.ofList (r.log.map fun b => if b then '1' else '0')} sel={sel} bound={bound} {outsStr d'}")
  | ["ext", i, "put", v] =>
    match i.toNat?, Val.parse v with
    | some i, some v => let s := extOp d.circ d.st i .put v; ({ d with st := s }, "ok " ++ (s.outS i).render)
    | _, _ => (d, "bad-op")
  | ["ext", i, "inc"] =>
    match i.toNat? with
    | some i => let s := extOp d.circ d.st i .inc .undef; ({ d with st := s }, "ok " ++ (s.outS i).render)
    | none => (d, "bad-op")
  | _ => (d, "bad-op")

end Edzed.Burst
