-- driver-prefix: wiring
/- line-protocol glue for the wiring model (parsing / printing only) -/
import EdzedModel.Wiring

namespace Edzed.Wiring

structure DState where
  c : Circ := {}

instance : Inhabited DState := ⟨{}⟩

def errStr : Err → String
  | .keyError => "err KeyError"
  | .valueError => "err ValueError"
  | .typeError => "err TypeError"
  | .invalidState => "err InvalidState"
  | .circuitError => "err CircuitError"

/-- names are sent with a leading dot (the empty name is `.`) -/
def parseName (s : String) : Option String :=
  match s.toList with
  | '.' :: r => some (String.ofList r)
  | _ => none

def parseRef (s : String) : Option Ref :=
  match s.toList with
  | 'o' :: '.' :: r => some (.obj false (String.ofList r))
  | 'x' :: '.' :: r => some (.obj true (String.ofList r))
  | 'n' :: '.' :: r => some (.name (String.ofList r))
  | 'k' :: '~' :: r => Ref.const <$> Val.parse (String.ofList r)
  | 'v' :: '~' :: r =>
    match Val.parse (String.ofList r) with
    | some (.atom (.str _)) => none          -- a Python string is always sent as `n.`
    | some v => some (.val v)
    | none => none
  | _ => none

def renderRef : Ref → String
  | .obj false n => "o." ++ n
  | .obj true n => "x." ++ n
  | .name s => "n." ++ s
  | .const v => "k~" ++ v.render
  | .val (.atom (.str s)) => "n." ++ s
  | .val v => "v~" ++ v.render

def splitField (s : String) (sep : String) : List String :=
  if s == "-" || s == "" then [] else s.splitOn sep

def parseInp (s : String) : Option Inp :=
  match s.toList with
  | '(' :: r =>
    match r.reverse with
    | ')' :: m =>
      let body := String.ofList m.reverse
      Inp.group <$> (if body.isEmpty then some [] else (body.splitOn "|").mapM parseRef)
    | _ => none
  | _ => Inp.single <$> parseRef s

def parseNamed (s : String) : Option (String × Inp) :=
  match s.splitOn "=" with
  | [k, v] => (fun x => (k, x)) <$> parseInp v
  | _ => none

def renderInp : Inp → String
  | .single r => renderRef r
  | .group rs => "(" ++ "|".intercalate (rs.map renderRef) ++ ")"

def renderInputs (l : Inputs) : String :=
  if l.isEmpty then "-" else "+".intercalate (l.map fun p => p.1 ++ "=" ++ renderInp p.2)

def insertSorted (x : String) : List String → List String
  | [] => [x]
  | y :: r => if x < y then x :: y :: r else y :: insertSorted x r

def sortNames (l : List String) : List String := l.foldr insertSorted []

def renderNames (l : List String) : String :=
  if l.isEmpty then "-" else ",".intercalate ((sortNames l).map fun n => "." ++ n)

def kindStr : Option BKind → String
  | none => "?"
  | some .s => "S"
  | some (.c .not) => "Cnot"
  | some (.c .ovr) => "Covr"
  | some (.c .any) => "Cany"
  | some (.c (.sig _)) => "Csig"
  | some (.c (.func _ _)) => "Cany"

def parseOptNat (s : String) : Option (Option Nat) :=
  if s == "n" then some none else s.toNat?.map some

/-- `n` (single) | `<k>` (exact size) | `<lo>~<hi>` with `n` for an open bound | `bad` -/
def parseExpect (s : String) : Option Expect :=
  if s == "n" then some .single
  else if s == "bad" then some .malformed
  else match s.splitOn "~" with
    | [k] => Expect.exact <$> k.toNat?
    | [lo, hi] => do pure (.range (← parseOptNat lo) (← parseOptNat hi))
    | _ => none

def nodupStrs : List String → Bool
  | [] => true
  | k :: r => !(r.contains k) && nodupStrs r

def parseEsig (s : String) : Option (List (String × Expect)) :=
  if s == "-" then some []
  else do
    let l ← (s.splitOn ";").mapM fun item =>
      match item.splitOn "=" with
      | [k, v] => (fun e => (k, e)) <$> parseExpect v
      | _ => none
    if nodupStrs (l.map (·.1)) then pure l else none

/-- `a,b=,c` : names, a trailing `=` marks a default -/
def parseParams (s : String) : Option (List (String × Bool)) :=
  if s == "-" || s == "" then some []
  else some ((s.splitOn ",").map fun x =>
    match x.toList.reverse with
    | '=' :: r => (String.ofList r.reverse, true)
    | _ => (x, false))

/-- `func:<unpack 0|1>:<pos>:<varargs 0|1>:<kwonly>:<varkw 0|1>` -/
def parseFunc (s : String) : Option CCls :=
  match s.splitOn ":" with
  | ["func", u, pos, va, kwo, vk] => do
    let pos ← parseParams pos
    let kwo ← parseParams kwo
    pure (.func { pos := pos, varargs := va == "1", kwonly := kwo, varkw := vk == "1" } (u == "1"))
  | _ => none

def parseCls (s : String) : Option CCls :=
  if s.startsWith "func:" then parseFunc s else
  match s.toList with
  | 's' :: 'i' :: 'g' :: ':' :: r => CCls.sig <$> parseEsig (String.ofList r)
  | _ =>
    match s with
    | "not" => some .not
    | "ovr" => some .ovr
    | "any" => some .any
    | _ => none

def nodupKeys (l : List (String × Inp)) : Bool :=
  match l with
  | [] => true
  | p :: r => !(r.any fun q => q.1 == p.1) && nodupKeys r

def renderConfInp : ConfInp → String
  | .single n => n
  | .group ns => "(" ++ "|".intercalate ns ++ ")"

def handle (d : DState) : List String → DState × String
  | ["reset"] => ({}, "ok")
  | ["sblock", n] =>
    match parseName n with
    | none => (d, "bad-op")
    | some n =>
      match addBlock d.c n .s false with
      | .ok c => ({ c := c }, "ok")
      | .error e => (d, errStr e)
  | ["cblock", cls, n] =>
    match parseCls cls, parseName n with
    | some cls, some n =>
      match addBlock d.c n (.c cls) false with
      | .ok c => ({ c := c }, "ok")
      | .error e => (d, errStr e)
    | _, _ => (d, "bad-op")
  | ["connect", b, pos, named] =>
    match parseName b, (splitField pos "+").mapM parseRef, (splitField named "+").mapM parseNamed with
    | some b, some pos, some named =>
      if !nodupKeys named then (d, "bad-op") else
      match connect d.c b pos named with
      | .ok c => ({ c := c }, "ok")
      | .error e => (d, errStr e)
    | _, _, _ => (d, "bad-op")
  | ["slot", k, r] =>
    let needS? := match k with | "S" => some true | "B" => some false | _ => none
    let r? : Option SRef := match r.toList with
      | 'n' :: '.' :: x => some (.name (String.ofList x))
      | 'o' :: '.' :: x => some (.obj (String.ofList x))
      | _ => none
    match needS?, r? with
    | some needS, some r =>
      match register d.c r needS with
      | .ok c => ({ c := c }, s!"ok {d.c.slots.length}")
      | .error e => (d, errStr e)
    | _, _ => (d, "bad-op")
  | ["finalize"] =>
    match finalize d.c with
    | (c, none) => ({ c := c }, "ok")
    | (c, some e) => ({ c := c }, errStr e)
  | ["start"] =>
    match start d.c with
    | (c, none) => ({ c := c }, "ok")
    | (c, some e) => ({ c := c }, errStr e)
  | ["setpd", x] =>
    let v? : Option (Option Nat) := if x == "n" then some none else x.toNat?.map some
    match v? with
    | none => (d, "bad-op")
    | some v =>
      match setStorage d.c v with
      | .ok c => ({ c := c }, "ok")
      | .error e => (d, errStr e)
  | ["pd"] => (d, match d.c.storage with | none => "n" | some i => toString i)
  | ["fin"] => (d, if d.c.finalized then "b1" else "b0")
  | ["blocks"] => (d, if d.c.order.isEmpty then "-" else ",".intercalate (d.c.order.map fun n => "." ++ n))
  | ["blk", n] =>
    match parseName n with
    | none => (d, "bad-op")
    | some n =>
      (d, kindStr (d.c.kind n) ++ " in=" ++ renderInputs (d.c.inputs n)
          ++ " ic=" ++ renderNames (d.c.iconn n) ++ " oc=" ++ renderNames (d.c.oconn n))
  | ["conf", n] =>
    match parseName n with
    | none => (d, "bad-op")
    | some n =>
      match getConfInputs d.c n with
      | none => (d, "absent")
      | some none => (d, "err AttributeError")
      | some (some l) =>
        (d, if l.isEmpty then "-" else "+".intercalate (l.map fun p => p.1 ++ "=" ++ renderConfInp p.2))
  | ["sig", n] =>
    match parseName n with
    | none => (d, "bad-op")
    | some n =>
      match inputSignature d.c n with
      | .error e => (d, errStr e)
      | .ok l => (d, "+".intercalate (l.map fun p =>
          p.1 ++ "=" ++ (match p.2 with | none => "n" | some k => toString k)))
  | ["chk", n] =>
    match parseName n with
    | none => (d, "bad-op")
    | some n =>
      match d.c.kind n with
      | some (.c cls) =>
        match expectedSig cls with
        | none => (d, "bad-op")
        | some esig =>
          match checkSignatureD d.c n esig with
          | .error e => (d, errStr e)
          | .ok none => (d, "ok")
          | .ok (some (.names u m)) => (d, "err ValueError names u=" ++ renderNames u ++ " m=" ++ renderNames m)
          | .ok (some (.values l)) =>
            (d, "err ValueError values " ++ ",".intercalate (l.map fun x => "." ++ x))
          | .ok (some (.malformed k)) => (d, "err ValueError malformed ." ++ k)
      | _ => (d, "bad-op")
  | ["foreign", names] =>
    -- blocks that are NOT in this circuit but have got output connections from it
    match (splitField names ",").mapM parseName with
    | none => (d, "bad-op")
    | some ns =>
      let touched := ns.filter fun n => (d.c.kind n).isNone && !(d.c.oconn n).isEmpty
      (d, if touched.isEmpty then "-" else ",".intercalate (touched.map fun n => "." ++ n))
  | ["dest", i] =>
    match i.toNat? with
    | none => (d, "bad-op")
    | some i =>
      match d.c.slots[i]? with
      | none => (d, "bad-op")
      | some sl =>
        match slotDest d.c i, sl.ref with
        | .ok n, _ => (d, "obj ." ++ n)
        | .error e, .name s => (d, errStr e ++ " ." ++ s)
        | .error e, _ => (d, errStr e)
  | _ => (d, "bad-op")

end Edzed.Wiring
