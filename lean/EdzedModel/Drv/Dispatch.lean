-- driver-prefix: dispatch
import EdzedModel.Dispatch

/-!
Line protocol of the dispatch model (C11):

  reset <n>                                   n empty probe blocks
  blk <i> probe <init> <a> <b> <need>         scripts: `-` or acts joined by `;`
                                              act: o<val> | s<i>:<val or -> | t<i>:<val or -> (send, swallow exceptions) | r | e<dest>:<etype>
  blk <i> input <initdef or u> <allowed: - or val,val,…>
  blk <i> counter <modulo or n> <initdef>
  blk <i> fsm <nStates> <trans: - or ev:from|*:to|-,…> <enter scripts joined by |> <exit scripts> <timed: - or etype@dur, by state joined by |>
  cond <i> <event> <script> <c0 | c1 | k<key>>  cond_EVENT callback of FSM i: statements, then the value returned
  blk <i> outfunc <v | f | c<val>>            user function: returns its argument / raises / constant
  blk <i> repeat <dest> <etype> <count or n>  edzed.Repeat(dest=, etype=, count=)
  resend <d> <rep>                            the main task of Repeat d sends repetition number <rep>
  edge <src> <o|e|x|s|r|nt|en<state>|ex<state>> <dest> <etype> <filters: - or a,r,v,w,d,u,s<val>>
  etype: prefix notation, tokens joined by `/`: 0 | e | x | n:<name> | g<state> | c/<etype>/<etype>
  tick <d>                                    the timer of FSM d fires;   stop   the simulation task has ended
  init                                        second initialisation pass
  ext <d> <name> <data>                       ExtEvent(d, name).send(**data)
  raw <d> <etype> <data>                      d.event(etype, **data)

replies of init/ext/raw:  <result> | <enter/exit items> | <refused block> | <state>
-/

namespace Edzed.Dispatch

structure DState where
  circ : Circ := ⟨[]⟩
  st : St := default

instance : Inhabited DState := ⟨{}⟩

def parseETToks : Nat → List String → Option (EType × List String)
  | 0, _ => Option.none
  | _, [] => Option.none
  | fuel + 1, t :: rest =>
    if t.startsWith "g" && (t.drop 1).toNat?.isSome then some (.goto ((t.drop 1).toNat?.getD 0), rest)
    else if t == "0" then some (.none, rest)
    else if t == "e" then some (.empty, rest)
    else if t == "x" then some (.nonStr, rest)
    else if t == "c" then
      match parseETToks fuel rest with
      | some (a, r1) =>
        match parseETToks fuel r1 with
        | some (b, r2) => some (.cond a b, r2)
        | Option.none => Option.none
      | Option.none => Option.none
    else match t.splitOn ":" with
      | ["n", nm] => if nm.isEmpty then Option.none else some (.name nm, rest)
      | _ => Option.none

def parseET (s : String) : Option EType :=
  let toks := s.splitOn "/"
  match parseETToks (toks.length + 1) toks with
  | some (e, []) => some e
  | _ => Option.none

def parseOptVal (s : String) : Option (Option Val) :=
  if s == "-" then some Option.none else (Val.parse s).map some

def parseAct (s : String) : Option Act :=
  match s.toList with
  | ['r'] => some .raise
  | 'o' :: r => (Val.parse (String.ofList r)).map .setOut
  | 's' :: r =>
    match (String.ofList r).splitOn ":" with
    | [i, v] => do
      let i ← i.toNat?
      let v ← parseOptVal v
      pure (.send i v)
    | _ => Option.none
  | 't' :: r =>
    match (String.ofList r).splitOn ":" with
    | [i, v] => do
      let i ← i.toNat?
      let v ← parseOptVal v
      pure (.trySend i v)
    | _ => Option.none
  | 'e' :: r =>
    match (String.ofList r).splitOn ":" with
    | i :: rest => do
      let i ← i.toNat?
      let et ← parseET (":".intercalate rest)
      pure (.rawEvent i et)
    | _ => Option.none
  | _ => Option.none

def parseScript (s : String) : Option (List Act) :=
  if s == "-" then some [] else (s.splitOn ";").mapM parseAct

def parseFilter (s : String) : Option Filter :=
  match s.toList with
  | ['a'] => some .accept
  | ['r'] => some .reject
  | ['v'] => some .ifValue
  | ['w'] => some .ifNotValue
  | ['d'] => some .delValue
  | ['u'] => some .notFromUndef
  | 's' :: r => (Val.parse (String.ofList r)).map .setValue
  | _ => Option.none

def parseFilters (s : String) : Option (List Filter) :=
  if s == "-" then some [] else (s.splitOn ",").mapM parseFilter

def parseVals (s : String) : Option (Option (List Val)) :=
  if s == "-" then some Option.none else ((s.splitOn ",").mapM Val.parse).map some

def parseNumOpt (s : String) : Option (Option Counter.Num) :=
  if s == "n" then some Option.none
  else match Val.parse s with
    | some v => (Counter.Num.ofVal? v).map some
    | Option.none => Option.none

def excStr : Exc → String
  | .unknownEvent => "UnknownEvent"
  | .typeError => "TypeError"
  | .valueError => "ValueError"
  | .circuitError => "CircuitError"
  | .runtimeError => "RuntimeError"
  | .invalidState => "InvalidState"
  | .other => "Other"
  | .outOfFuel => "OutOfFuel"

def resStr : Res → String
  | .ret v => "ret " ++ v.render
  | .exc e => "exc " ++ excStr e

def itemStr : TItem → Option String
  | .enter d k v w => some ("+" ++ blockName d ++ ":" ++ toString (k + w) ++ ":" ++
      (match v with | some v => v.render | Option.none => "-"))
  | .exit d ok => some ("-" ++ blockName d ++ (if ok then "" else "!"))
  | .refused _ => Option.none

def refusedStr (t : List TItem) : String :=
  match t.filterMap (fun i => match i with | .refused d => some d | _ => Option.none) with
  | [] => "-"
  | l => ",".intercalate (l.reverse.map (fun d => "!" ++ blockName d))

def initStr : InitSt → String
  | .pending => "p" | .running => "r" | .done => "d"

def stateStr (c : Circ) (s : St) : String :=
  " ".intercalate ((List.range c.n).map fun d =>
    (s.out d).render ++ "," ++ (if s.active d then "1" else "0") ++ "," ++ initStr (s.init d)
      ++ "," ++ (match s.fstate d with | some st => toString st | Option.none => "-")
      ++ "," ++ (if (s.timer d).isSome then "T" else "-")
      ++ (if s.fsmActive d then "A" else "") ++ (if (s.nextEv d).isSome then "N" else ""))
  ++ " err=" ++ (match s.error with | some e => excStr e | Option.none => "-")
  ++ " stk=" ++ toString s.stack.length

def reply (c : Circ) (p : St × Res) : String :=
  let items := p.1.trace.reverse.filterMap itemStr
  resStr p.2 ++ " | " ++ (if items.isEmpty then "-" else ",".intercalate items) ++ " | "
    ++ refusedStr p.1.trace ++ " | " ++ stateStr c p.1

def setBlk (c : Circ) (i : Nat) (f : Blk → Blk) : Option Circ :=
  match c.blocks[i]? with
  | some b => some ⟨c.blocks.set i (f b)⟩
  | Option.none => Option.none

def handle (s : DState) : List String → DState × String
  | ["reset", n] =>
    match n.toNat? with
    | some n => ({ circ := ⟨List.replicate n {}⟩, st := St.start }, "ok")
    | Option.none => (s, "bad-op")
  | ["blk", i, "probe", ini, a, b, need] =>
    match i.toNat?, parseScript ini, parseScript a, parseScript b, parseScript need with
    | some i, some ini, some a, some b, some need =>
      match setBlk s.circ i (fun x => { x with kind := .probe, initScript := ini, scriptA := a,
                                                scriptB := b, scriptNeed := need }) with
      | some c => ({ s with circ := c }, "ok")
      | Option.none => (s, "bad-op")
    | _, _, _, _, _ => (s, "bad-op")
  | ["blk", i, "input", initdef, allowed] =>
    match i.toNat?, Val.parse initdef, parseVals allowed with
    | some i, some initdef, some allowed =>
      match setBlk s.circ i (fun x => { x with kind := .input, initdef := initdef, allowed := allowed }) with
      | some c => ({ s with circ := c }, "ok")
      | Option.none => (s, "bad-op")
    | _, _, _ => (s, "bad-op")
  | ["blk", i, "counter", m, initdef] =>
    match i.toNat?, parseNumOpt m, parseNumOpt initdef with
    | some i, some m, some (some initdef) =>
      match setBlk s.circ i (fun x => { x with kind := .counter, initdef := initdef.toVal, cmod := m }) with
      | some c => ({ s with circ := c }, "ok")
      | Option.none => (s, "bad-op")
    | _, _, _ => (s, "bad-op")
  | ["blk", i, "outfunc", f] =>
    let fs : Option FuncScript := match f.toList with
      | ['v'] => some .value
      | ['f'] => some .fail
      | 'c' :: r => (Val.parse (String.ofList r)).map .const
      | _ => Option.none
    match i.toNat?, fs with
    | some i, some fs =>
      match setBlk s.circ i (fun x => { x with kind := .outfunc, func := fs }) with
      | some c => ({ s with circ := c }, "ok")
      | Option.none => (s, "bad-op")
    | _, _ => (s, "bad-op")
  | ["cond", i, ev, scr, cv] =>
    let cv? : Option CondVal := match cv.toList with
      | ['c', '0'] => some (.const false)
      | ['c', '1'] => some (.const true)
      | 'k' :: r => if r.isEmpty then Option.none else some (.item (String.ofList r))
      | _ => Option.none
    match i.toNat?, parseScript scr, cv? with
    | some i, some acts, some cv =>
      if ev.isEmpty then (s, "bad-op") else
      match s.circ.blocks[i]? with
      | some b =>
        if b.kind = .fsm && !b.conds.any (·.1 == ev) then
          match setBlk s.circ i (fun x => { x with conds := x.conds ++ [(ev, acts, cv)] }) with
          | some c => ({ s with circ := c }, "ok")
          | Option.none => (s, "bad-op")
        else (s, "bad-op")
      | Option.none => (s, "bad-op")
    | _, _, _ => (s, "bad-op")
  | ["blk", i, "repeat", dest, et, cnt] =>
    let cnt? : Option (Option Nat) := if cnt == "n" then some Option.none else cnt.toNat?.map some
    match i.toNat?, dest.toNat?, parseET et, cnt? with
    | some i, some dest, some et, some cnt =>
      if dest < s.circ.n then
        match setBlk s.circ i (fun x => { x with kind := .repeat, rdest := dest, retype := et, rcount := cnt }) with
        | some c => ({ s with circ := c }, "ok")
        | Option.none => (s, "bad-op")
      else (s, "bad-op")
    | _, _, _, _ => (s, "bad-op")
  | ["resend", d, rep] =>
    match d.toNat?, rep.toNat? with
    | some d, some rep =>
      match s.st.rcur d with
      | some (_, r) =>
        if r + 1 ≠ rep then (s, "bad-rep") else
        match resend s.circ { s.st with trace := [] } d with
        | some p => ({ s with st := p.1 }, reply s.circ p)
        | Option.none => (s, "not-repeating")
      | Option.none => (s, "not-repeating")
    | _, _ => (s, "bad-op")
  | ["blk", i, "fsm", n, tr, en, ex, tm] =>
    let parseTrans (x : String) : Option (String × Option Nat × Option Nat) :=
      match x.splitOn ":" with
      | [ev, fr, to] =>
        let fr? : Option (Option Nat) := if fr == "*" then some Option.none else fr.toNat?.map some
        let to? : Option (Option Nat) := if to == "-" then some Option.none else to.toNat?.map some
        match fr?, to? with
        | some f, some t => if ev.isEmpty then Option.none else some (ev, f, t)
        | _, _ => Option.none
      | _ => Option.none
    let parseTimed (x : String) : Option (Option (EType × Nat)) :=
      if x == "-" then some Option.none
      else match x.splitOn "@" with
        | [e, dur] => match parseET e, dur.toNat? with
          | some e, some dur => some (some (e, dur))
          | _, _ => Option.none
        | _ => Option.none
    let trs : Option (List (String × Option Nat × Option Nat)) :=
      if tr == "-" then some [] else (tr.splitOn ",").mapM parseTrans
    match i.toNat?, n.toNat?, trs, (en.splitOn "|").mapM parseScript, (ex.splitOn "|").mapM parseScript,
        (tm.splitOn "|").mapM parseTimed with
    | some i, some n, some trs, some en, some ex, some tm =>
      match setBlk s.circ i (fun x => { x with kind := .fsm, nStates := n, trans := trs, enterS := en,
                                               exitS := ex, timed := tm }) with
      | some c => ({ s with circ := c }, "ok")
      | Option.none => (s, "bad-op")
    | _, _, _, _, _, _ => (s, "bad-op")
  | ["edge", src, slot, dest, et, fl] =>
    match src.toNat?, dest.toNat?, parseET et, parseFilters fl with
    | some src, some dest, some et, some fl =>
      let e : Edge := ⟨dest, et, fl⟩
      let upd : Option (Blk → Blk) :=
        if slot == "o" then some (fun x => { x with onOutput := x.onOutput ++ [e] })
        else if slot == "e" then some (fun x => { x with onEvery := x.onEvery ++ [e] })
        else if slot == "x" then some (fun x => { x with extra := x.extra ++ [e] })
        else if slot == "s" then some (fun x => { x with onSuccess := x.onSuccess ++ [e] })
        else if slot == "r" then some (fun x => { x with onError := x.onError ++ [e] })
        else if slot == "nt" then some (fun x => { x with onNotrans := x.onNotrans ++ [e] })
        else if slot.startsWith "en" then
          (slot.drop 2).toNat?.map fun st => fun x =>
            { x with onEnter := (x.onEnter ++ List.replicate (st + 1 - x.onEnter.length) []).modify st (· ++ [e]) }
        else if slot.startsWith "ex" then
          (slot.drop 2).toNat?.map fun st => fun x =>
            { x with onExit := (x.onExit ++ List.replicate (st + 1 - x.onExit.length) []).modify st (· ++ [e]) }
        else Option.none
      match upd with
      | some f =>
        if dest < s.circ.n then
          match setBlk s.circ src f with
          | some c => ({ s with circ := c }, "ok")
          | Option.none => (s, "bad-op")
        else (s, "bad-op")
      | Option.none => (s, "bad-op")
    | _, _, _, _ => (s, "bad-op")
  | ["init"] =>
    let p := startUp s.circ { s.st with trace := [] }
    -- the start-up reports `Circuit.error` (what `run_forever` raises), not the propagating exception
    let r : Res := match p.1.error with | some e => .exc e | Option.none => .ret .none
    ({ s with st := p.1 }, reply s.circ (p.1, r))
  | ["ext", d, name, data] =>
    match d.toNat?, Data.parse data with
    | some d, some data =>
      if name.isEmpty then (s, "bad-op") else
      let p := extSend s.circ { s.st with trace := [] } d name data
      ({ s with st := p.1 }, reply s.circ p)
    | _, _ => (s, "bad-op")
  | ["tick", d] =>
    match d.toNat? with
    | some d =>
      match tick s.circ { s.st with trace := [] } d with
      | some p => ({ s with st := p.1 }, reply s.circ p)
      | Option.none => (s, "no-timer")
    | Option.none => (s, "bad-op")
  | ["stop"] =>
    let st := stopAll s.st
    ({ s with st := st }, "stopped " ++ stateStr s.circ st)
  | ["raw", d, et, data] =>
    match d.toNat?, parseET et, Data.parse data with
    | some d, some et, some data =>
      let p := rawSend s.circ { s.st with trace := [] } d et data
      ({ s with st := p.1 }, reply s.circ p)
    | _, _, _ => (s, "bad-op")
  | _ => (s, "bad-op")

end Edzed.Dispatch
