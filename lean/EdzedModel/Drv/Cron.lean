-- driver-prefix: cron Cron
/- line-protocol glue for the cron specification (parsing / printing only) -/
import EdzedModel.Cron

namespace Edzed.Cron

structure DState where
  lam : Nat := 0
  bound : Nat := 0
  st : State := {}

instance : Inhabited DState := ⟨{}⟩

def DState.params (s : DState) : Params := { cal := civil, lam := s.lam, bound := s.bound }

/-- `-` → none, `e` → some [], else the `sep`-separated items -/
def parseOptList {α} (item : String → Option α) (s : String) : Option (Option (List α)) :=
  if s == "-" then some none
  else if s == "e" then some (some [])
  else (s.splitOn ",").mapM item |>.map some

def parseList {α} (item : String → Option α) (s : String) : Option (List α) :=
  if s == "e" then some [] else (s.splitOn ",").mapM item

def parsePair {α} (item : String → Option α) (s : String) : Option (α × α) :=
  match s.splitOn "~" with
  | [a, b] => do pure (← item a, ← item b)
  | _ => none

def parseMD (s : String) : Option MD :=
  match s.splitOn "." with
  | [m, d] => do pure (← m.toNat?, ← d.toNat?)
  | _ => none

def parseStamp (s : String) : Option Stamp :=
  match s.splitOn "." with
  | [y, m, d, t] => do pure { y := ← y.toNat?, m := ← m.toNat?, d := ← d.toNat?, tod := ← t.toNat? }
  | _ => none

def parseCfg (s : String) : Option Cfg :=
  match s.splitOn ":" with
  | ["td", t, d, w] => do
    pure (.timedate { times := ← parseOptList (parsePair String.toNat?) t,
                      dates := ← parseOptList (parsePair parseMD) d,
                      weekdays := ← parseOptList String.toNat? w })
  | ["ts", sp] => do pure (.timespan (← parseList (parsePair parseStamp) sp))
  | _ => none

def parseBool (s : String) : Option Bool :=
  if s == "b1" then some true else if s == "b0" then some false else none

def parseBlocks (s : String) : Option (List Nat) :=
  if s == "e" then some [] else (s.splitOn ".").mapM String.toNat?

def parseAlarm (s : String) : Option (Nat × List Nat) :=
  match s.splitOn "=" with
  | [t, b] => do pure (← t.toNat?, ← parseBlocks b)
  | _ => none

def renderNats (sep : String) (l : List Nat) : String :=
  if l.isEmpty then "e" else sep.intercalate (l.map toString)

def renderVerdict : Verdict → String
  | .ok => "ok"
  | .order => "reject-order"
  | .s1 => "reject-S1"
  | .s2 => "reject-S2"
  | .s3 => "reject-S3"

/-- reply with the verdict of the record and do the bookkeeping in any case -/
def feed (s : DState) (r : Rec) : DState × String :=
  ({ s with st := apply s.params s.st r }, renderVerdict (verdict s.params s.st r))

def handle (s : DState) : List String → DState × String
  | ["reset", lam, bound] =>
    match lam.toNat?, bound.toNat? with
    | some l, some b => ({ lam := l, bound := b, st := {} }, "ok")
    | _, _ => (s, "bad-op")
  | ["civil", d] =>
    match d.toNat? with
    | some d =>
      let c := civil d
      (s, s!"{c.year}-{c.month}-{c.day}-{c.wday}")
    | none => (s, "bad-op")
  | ["config", blk, cfg, read, out] =>
    match blk.toNat?, parseCfg cfg, read.toNat?, parseBool out with
    | some b, some c, some r, some o => feed s (.config b c r o)
    | _, _, _, _ => (s, "bad-op")
  | ["recalc", blk, read, out] =>
    match blk.toNat?, read.toNat?, parseBool out with
    | some b, some r, some o => feed s (.recalc b r o)
    | _, _, _ => (s, "bad-op")
  | ["jump", t, delta] =>
    match t.toNat?, delta.toNat? with
    | some t, some d => feed s (.jump t d)
    | _, _ => (s, "bad-op")
  | ["late", t, delta] =>
    match t.toNat?, delta.toNat? with
    | some t, some d => feed s (.late t d)
    | _, _ => (s, "bad-op")
  | ["probe", t, blk, out] =>
    match t.toNat?, blk.toNat?, parseBool out with
    | some t, some b, some o => feed s (.probe t b o)
    | _, _, _ => (s, "bad-op")
  | ["alarms", blk] =>
    match blk.toNat? with
    | some b =>
      match s.st.blocks b with
      | some bs => (s, renderNats "," (alarmTimes civil bs.cfg bs.last))
      | none => (s, "unknown-block")
    | none => (s, "bad-op")
  | ["group", read, alarms, blocks] =>
    match read.toNat?, parseList parseAlarm alarms, parseBlocks blocks with
    | some r, some al, some bl => (s, if groupLegal (s.lam + lateSlack s.st r) al r bl then "ok" else "illegal")
    | _, _, _ => (s, "bad-op")
  | ["targets", alarms] =>
    match parseList parseAlarm alarms with
    | some al =>
      match resetTargets al with
      | .ok l => (s, renderNats "." l)
      | .error _ => (s, "err TypeError")
    | none => (s, "bad-op")
  | _ => (s, "bad-op")

end Edzed.Cron
