-- driver-prefix: filters
import EdzedModel.Filters

/-!
Line protocol of the filter model (parsing and printing only).

```
filters reset                               -> ok
filters env <block> <val>                   -> ok        output of a control/source block
filters def <id> edge <r> <f> <ur> <uf>     -> ok        each `-` (argument omitted) | 0 | 1, <ur> also n (None)
filters kind <block> c|s                    -> ok        the block is a CBlock / an SBlock (default)
filters def <id> nfu | delta <num> | ifout <block> | ifnotinit <block>     (-> err TypeError: wrong block type)
filters def <id> edit <op>*                 -> ok        add:<data> setdef:<data> addout:<key>:<block> copy:<a>:<b>
                                                         rename:<a>:<b> del:<k,k> permit:<k,k> mod:<key>:<fn…>
filters def <id> user <muts> <ret>          -> ok        muts: - | set:<k>=<v>+del:<k>+…   ret: val:<v> map:<data> self
                                                         badkey raise:<E> item:<k>
filters call <id> <data>                    -> map <data> | val <v> | badkey | err <E>
filters send <id,id,…|-> <source> <data>    -> sent <data> | rejected | err <E>
```
-/

namespace Edzed.Filters

structure DState where
  env : List (String × Val) := []
  filters : List (String × Filter) := []
  kinds : List (String × BlockKind) := []      -- blocks that are not SBlocks
  deriving Inhabited

def DState.kindOf (s : DState) (b : String) : BlockKind :=
  match s.kinds.find? (·.1 == b) with
  | some p => p.2
  | none => .sblock

def DState.envFn (s : DState) : Env := fun n =>
  match s.env.find? (·.1 == n) with
  | some p => p.2
  | none => .undef

def DState.setFilter (s : DState) (id : String) (f : Filter) : DState :=
  { s with filters := (id, f) :: s.filters.filter (·.1 != id) }

def DState.getFilter (s : DState) (id : String) : Option Filter :=
  (s.filters.find? (·.1 == id)).map (·.2)

def parseFlag (s : String) : Option (Option Bool) :=
  if s == "-" then some none else if s == "0" then some (some false)
  else if s == "1" then some (some true) else none

def parseErr (s : String) : Option Err :=
  if s == "KeyError" then some .keyError else if s == "TypeError" then some .typeError
  else if s == "ValueError" then some .valueError else none

def parseKeys (s : String) : List String := if s.isEmpty then [] else s.splitOn ","

def numParts? : Val → Option (Rat × Kind)
  | .atom (.num q k) => some (q, k)
  | _ => none

/-- the functions the harness passes to `DataEdit.modify` -/
def parseModFn : List String → Option (Val → ModRes)
  | ["const", v] => (Val.parse v).map fun x _ => .value x
  | ["inc", v] => do
    let (n, kn) ← (Val.parse v) >>= numParts?
    pure fun cur => match numParts? cur with
      | some (q, k) => .value (.atom (.num (q + n) (k.join kn)))
      | none => .raise .typeError
  | ["del"] => some fun _ => .delete
  | ["rej"] => some fun _ => .reject
  | ["rejfalsy"] => some fun cur => if cur.truthy then .value cur else .reject
  | ["delfalsy"] => some fun cur => if cur.truthy then .value cur else .delete
  | ["raise", e] => (parseErr e).map fun x _ => .raise x
  | _ => none

def parseEditOp (tok : String) : Option EditOp :=
  match tok.splitOn ":" with
  | ["add", d] => EditOp.add <$> Data.parse d
  | ["setdef", d] => EditOp.setdefault <$> Data.parse d
  | ["addout", k, b] => some (.addOutput k b)
  | ["copy", a, b] => some (.copy a b)
  | ["rename", a, b] => some (.rename a b)
  | ["del", ks] => some (.delete (parseKeys ks))
  | ["permit", ks] => some (.permit (parseKeys ks))
  | "mod" :: k :: fn => EditOp.modify k <$> parseModFn fn
  | _ => none

inductive Mut where
  | set (k : String) (v : Val)
  | del (k : String)

def Mut.apply (d : Data) : Mut → Data
  | .set k v => d.set k v
  | .del k => d.erase k

def parseMut (tok : String) : Option Mut :=
  match tok.splitOn ":" with
  | ["set", kv] =>
    match kv.splitOn "=" with
    | [k, v] => Mut.set k <$> Val.parse v
    | _ => none
  | ["del", k] => some (.del k)
  | _ => none

def parseMuts (tok : String) : Option (List Mut) :=
  if tok == "-" then some [] else (tok.splitOn "+").mapM parseMut

inductive Ret where
  | val (v : Val) | map (d : Data) | self | badkey | raise (e : Err) | item (k : String)

def parseRet (tok : String) : Option Ret :=
  match tok.splitOn ":" with
  | ["val", v] => Ret.val <$> Val.parse v
  | ["map", d] => Ret.map <$> Data.parse d
  | ["self"] => some .self
  | ["badkey"] => some .badkey
  | ["raise", e] => Ret.raise <$> parseErr e
  | ["item", k] => some (.item k)
  | _ => none

/-- a user filter given by a script: in-place modifications, then the return value -/
def userFn (muts : List Mut) (ret : Ret) : Data → Data × FRes := fun d =>
  let d1 := muts.foldl Mut.apply d
  (d1, match ret with
    | .val v => .other v
    | .map m => .mapping m
    | .self => .mapping d1
    | .badkey => .badKey
    | .raise e => .raise e
    | .item k => match d1.get? k with
      | some v => .other v
      | none => .raise .keyError)

/-- a DataEdit object built the way the harness builds it: the first operation on the class, the others
    chained on the object it returned -/
def buildDataEdit (ops : List EditOp) : Filter :=
  .dataEdit ((ops.foldl (fun acc op => some (dataEditOp acc op)) (none : Option (List EditOp))).getD dataEditNew)

def parseFilter (s : DState) : List String → Option (Except Err Filter)
  | ["edge", r, f, ur, uf] => do
    let r ← parseFlag r
    let f ← parseFlag f
    let ur ← (if ur == "n" then some (some none) else (parseFlag ur).map (·.map some))
    let uf ← parseFlag uf
    let a : EdgeArgs := {}
    let a := match r with | some b => { a with rise := b } | none => a
    let a := match f with | some b => { a with fall := b } | none => a
    let a := match ur with | some b => { a with uRise := b } | none => a
    let a := match uf with | some b => { a with uFall := b } | none => a
    pure (.ok (Filter.mkEdge a))
  | ["nfu"] => some (.ok .notFromUndef)
  | ["delta", v] => do
    let q ← (Val.parse v) >>= xnumOf?
    pure (.ok (Filter.mkDelta q))
  | ["ifout", b] => some (Filter.mkIfOutput (s.kindOf b) b)
  | ["ifnotinit", b] => some (Filter.mkIfNotInitialized (s.kindOf b) b)
  | "edit" :: ops => (fun l => .ok (buildDataEdit l)) <$> ops.mapM parseEditOp
  | ["user", m, r] => do
    let m ← parseMuts m
    let r ← parseRet r
    pure (.ok (.user (userFn m r)))
  | _ => none

def renderFRes : FRes → String
  | .mapping d => "map " ++ d.render
  | .other v => "val " ++ v.render
  | .badKey => "badkey"
  | .raise e => "err " ++ e.name

def renderOutcome : Outcome → String
  | .delivered d => "sent " ++ d.render
  | .rejected => "rejected"
  | .error e => "err " ++ e.name

def handle (s : DState) : List String → DState × String
  | ["reset"] => ({}, "ok")
  | ["env", b, v] =>
    match Val.parse v with
    | some x => ({ s with env := (b, x) :: s.env.filter (·.1 != b) }, "ok")
    | none => (s, "bad-op")
  | ["kind", b, k] =>
    if k == "c" then ({ s with kinds := (b, .cblock) :: s.kinds.filter (·.1 != b) }, "ok")
    else if k == "s" then ({ s with kinds := s.kinds.filter (·.1 != b) }, "ok")
    else (s, "bad-op")
  | "def" :: id :: spec =>
    match parseFilter s spec with
    | some (.ok f) => (s.setFilter id f, "ok")
    | some (.error e) => (s, "err " ++ e.name)       -- the constructor raised: nothing is defined
    | none => (s, "bad-op")
  | ["call", id, d] =>
    match s.getFilter id, Data.parse d with
    | some f, some d =>
      let r := f.call s.envFn d
      (s.setFilter id r.filter, renderFRes r.ret)
    | _, _ => (s, "bad-op")
  | ["send", ids, src, d] =>
    let ids := if ids == "-" then [] else ids.splitOn ","
    match ids.mapM s.getFilter, Data.parse d with
    | some fs, some d =>
      if ids.eraseDups.length != ids.length then (s, "bad-op")   -- one object per position
      else
        let r := send s.envFn fs src d
        let s' := (ids.zip r.1).foldl (fun acc p => acc.setFilter p.1 p.2) s
        (s', renderOutcome r.2)
    | _, _ => (s, "bad-op")
  | _ => (s, "bad-op")

end Edzed.Filters
