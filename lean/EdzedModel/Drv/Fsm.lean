-- driver-prefix: fsm
import EdzedModel.Fsm

/-!
Line protocol of the FSM model (parsing / printing only).

`fsm reset <states> <rules> <timers> <condF> <condM> <enterF> <enterM> <exitF> <exitM> <outmap> <initdef>`
  states  `A,B`                      rules   `ev:froms:to,…`  froms `*` | `~` (empty list) | `A+B`, to `-` = None
  timers  `B:e0:z,C:>A:p` | `-`      (state : timed event, `>S` = Goto S : `z` zero duration / `p` other)
  conds   `e0~cb1|e1~kok` | `-`      (`c<value>` constant, `k<key>` item of the event data)
  enters  `B~e0@d{…}&>A@d{…}|C~`     (state ~ sends joined by `&`; a send is etype@data)
  exits   `A,B` | `-`                outmap `A~i1|B~u` | `-`
  -> builds the tables and initialises the FSM (`Goto(initdef)` without data)
`fsm ev <name> <data>` / `fsm goto <state> <data>`
Reply: `<ret b1|ret b0|err Kind> st=<state|u> out=<value> a=<0|1> n=<0|1> log=<entry>|<entry>…`
-/

namespace Edzed.Fsm

structure DState where
  d : Def := default
  f : Fsm := {}
  deriving Inhabited

def items (s : String) (sep : String) : List String :=
  if s == "-" then [] else s.splitOn sep

def okName (s : String) : Bool := !s.isEmpty && s != "-" && s != "*" && s != "~"

def parseEType (s : String) : Option EType :=
  match s.toList with
  | '>' :: r => if okName (String.ofList r) then some (.goto (String.ofList r)) else none
  | _ => if okName s then some (.ev s) else none

def parseRule (s : String) : Option RawRule :=
  match s.splitOn ":" with
  | [e, fr, to] =>
    if !okName e then none else
    let froms : Option (List State) :=
      if fr == "*" then none else if fr == "~" then some [] else some (fr.splitOn "+")
    some ⟨e, froms, if to == "-" then none else some to⟩
  | _ => none

def parseTimer (s : String) : Option (State × EType × Bool) :=
  match s.splitOn ":" with
  | [st, ev, fl] => do
    let e ← parseEType ev
    if fl == "z" then pure (st, e, true) else if fl == "p" then pure (st, e, false) else none
  | _ => none

def parseCond (s : String) : Option (EvName × CondS) :=
  match s.splitOn "~" with
  | [e, c] =>
    match c.toList with
    | 'c' :: r => (fun v => (e, CondS.const v)) <$> Val.parse (String.ofList r)
    | 'k' :: r => some (e, CondS.item (String.ofList r))
    | _ => none
  | _ => none

def parseSend (s : String) : Option Send :=
  match s.splitOn "@" with
  | [e, d] => do
    let e ← parseEType e
    let d ← Data.parse d
    pure ⟨e, d⟩
  | _ => none

def parseEnter (s : String) : Option (State × List Send) :=
  match s.splitOn "~" with
  | [st, sends] =>
    if sends.isEmpty then some (st, []) else (fun l => (st, l)) <$> (sends.splitOn "&").mapM parseSend
  | _ => none

def parseOut (s : String) : Option (State × Val) :=
  match s.splitOn "~" with
  | [st, v] => (fun x => (st, x)) <$> Val.parse v
  | _ => none

def Who.render : Who → String
  | .func => "f"
  | .meth => "m"

def EType.render : EType → String
  | .ev e => e
  | .goto s => ">" ++ s

def Action.render : Action → String
  | .cond w e seen => s!"cond:{w.render}:{e}:{seen.render}"
  | .notrans e s => s!"notrans:{e}:{s}"
  | .exit w s seen => s!"exit:{w.render}:{s}:{seen.render}"
  | .onExit s v => s!"on_exit:{s}:{v.render}"
  | .stopTimer => "stoptimer"
  | .setState s => s!"state:{s}"
  | .enter w s seen => s!"enter:{w.render}:{s}:{seen.render}"
  | .send e data => s!"send:{e.render}:{data.render}"
  | .sendRet r => if r then "ret:1" else "ret:0"
  | .startTimer s => s!"starttimer:{s}"
  | .output p v => s!"output:{p.render}:{v.render}"
  | .onEnter s v => s!"on_enter:{s}:{v.render}"

def Res.render : Res → String
  | .accepted => "ret b1"
  | .rejected => "ret b0"
  | .unknownEvent => "err UnknownEvent"
  | .errMultiple => "err CircuitError"
  | .errChain => "err CircuitError"
  | .errBadState => "err ValueError"
  | .errAssert => "err AssertionError"

def Fsm.render (f : Fsm) : String :=
  "st=" ++ (match f.state with | some s => s | none => "u") ++ " out=" ++ f.output.render
    ++ " a=" ++ (if f.active then "1" else "0") ++ " n=" ++ (if f.next.isSome then "1" else "0")

def reply (x : Fsm × Res × List Action) : String :=
  x.2.1.render ++ " " ++ x.1.render ++ " log=" ++ "|".intercalate (x.2.2.map Action.render)

def parseReset (a : List String) : Option (Spec × Scripts × State) :=
  match a with
  | [states, rules, timers, condF, condM, enterF, enterM, exitF, exitM, outmap, initdef] => do
    let rules ← (items rules ",").mapM parseRule
    let timers ← (items timers ",").mapM parseTimer
    let condF ← (items condF "|").mapM parseCond
    let condM ← (items condM "|").mapM parseCond
    let enterF ← (items enterF "|").mapM parseEnter
    let enterM ← (items enterM "|").mapM parseEnter
    let outmap ← (items outmap "|").mapM parseOut
    if !okName initdef then none else
    pure (⟨items states ",", rules, timers⟩,
      { condF := condF, condM := condM, enterF := enterF, enterM := enterM,
        exitF := items exitF ",", exitM := items exitM ",", outmap := outmap }, initdef)
  | _ => none

def handle (s : DState) : List String → DState × String
  | "reset" :: a =>
    match parseReset a with
    | none => (s, "bad-op")
    | some (sp, scr, initdef) =>
      match buildTables sp with
      | .error _ => (default, "err ValueError")
      | .ok t =>
        let d : Def := { toTables := t, toScripts := scr }
        let r := init d initdef
        ({ d := d, f := r.1 }, reply r)
  | ["ev", name, data] =>
    match Data.parse data with
    | some dt =>
      if !okName name then (s, "bad-op") else
      let r := ctxEvent s.d s.f (.ev name) dt
      ({ s with f := r.1 }, reply r)
    | none => (s, "bad-op")
  | ["goto", st, data] =>
    match Data.parse data with
    | some dt =>
      if !okName st then (s, "bad-op") else
      let r := ctxEvent s.d s.f (.goto st) dt
      ({ s with f := r.1 }, reply r)
    | none => (s, "bad-op")
  | _ => (s, "bad-op")

end Edzed.Fsm
