-- driver-prefix: validate
import EdzedModel.Validate

/-
Line protocol of the Validate model.

  validate reset in  <allowed> <check> <schema> <initdef>
  validate reset exp <allowed> <check> <schema> <initdef> <expired> <duration>
  validate init <restored|->              (InputExp: `-` or `R|<state>|<remaining s|->|<input|->`)
  validate put <value>
  validate wait <d>
  validate mutate clear | add <v> | remove <v>      (the caller changes ITS collection object)

<allowed> = `-` | `A` | `A|v|v…`;  <check> = `-` | `C|<default>|k=v|…`;
<schema> = `-` | `S|<default>|k=r|…` with r = value or `!X` (raise; X = V T K Z A C for
ValueError TypeError KeyError ZeroDivisionError AttributeError custom; a bare `!` = `!K`).  The scripts are lookup
tables keyed by the exact value (type included: `i1`, `b1` and `f1/1` are different keys).
-/
namespace Edzed.Validate

inductive Blk where
  | none
  | inp (w : World) (initdef : Val)
  | exp0 (c : Cfg) (inp : Option Val) (expired : Val) (dur : Option Nat) (caller : Option (List Val))
  | exp (w : ExpWorld)

structure DState where
  blk : Blk := .none

instance : Inhabited DState := ⟨{}⟩

def lookup {α : Type} (tbl : List (Val × α)) (d : α) (v : Val) : α :=
  match tbl.find? (fun p => p.1 == v) with
  | some p => p.2
  | none => d

def parseAllowed (s : String) : Option (Option (List Val)) :=
  if s == "-" then some none
  else match s.splitOn "|" with
    | "A" :: r => (r.mapM Val.parse).map some
    | _ => none

def parsePairs {α : Type} (f : String → Option α) (items : List String) : Option (List (Val × α)) :=
  items.mapM fun it =>
    match it.splitOn "=" with
    | [k, v] => do
      let k ← Val.parse k
      let v ← f v
      pure (k, v)
    | _ => none

def parseCheck (s : String) : Option (Option (Val → Val)) :=
  if s == "-" then some none
  else match s.splitOn "|" with
    | "C" :: d :: r => do
      let d ← Val.parse d
      let t ← parsePairs Val.parse r
      pure (some (lookup t d))
    | _ => none

def parseSRes (s : String) : Option (Except Exc Val) :=
  match s.toList with
  | ['!'] => some (.error .keyError)
  | ['!', 'V'] => some (.error .valueError)
  | ['!', 'T'] => some (.error .typeError)
  | ['!', 'K'] => some (.error .keyError)
  | ['!', 'Z'] => some (.error .zeroDivisionError)
  | ['!', 'A'] => some (.error .attributeError)
  | ['!', 'C'] => some (.error .custom)
  | _ => (Val.parse s).map .ok

def parseMut : List String → Option Mut
  | ["clear"] => some .clear
  | ["add", v] => (Val.parse v).map .add
  | ["remove", v] => (Val.parse v).map .remove
  | _ => none

def parseSchema (s : String) : Option (Option (Val → Except Exc Val)) :=
  if s == "-" then some none
  else match s.splitOn "|" with
    | "S" :: d :: r => do
      let d ← parseSRes d
      let t ← parsePairs parseSRes r
      pure (some (lookup t d))
    | _ => none

def parseCfg (a c s : String) : Option Cfg := do
  let a ← parseAllowed a
  let c ← parseCheck c
  let s ← parseSchema s
  pure ⟨a, c, s⟩

def Call.render : Call → String
  | .check v => "c:" ++ v.render
  | .schema v => "s:" ++ v.render

def callsStr (l : List Call) : String := " calls=" ++ "|".intercalate (l.map Call.render)

def errStr : CtorErr → String
  | .typeError => "err TypeError"
  | .valueError => "err ValueError"

def optStr : Option Val → String
  | none => "-"
  | some v => v.render

def stStr : St → String
  | .valid => "valid"
  | .expired => "expired"

def expStr (s : ExpState) : String :=
  "st=" ++ stStr s.st ++ " out=" ++ s.out.render ++ " val=" ++ optStr s.value

/-- `inf` or a number of seconds -/
def parseDur (d : String) : Option (Option Nat) :=
  if d == "inf" then some none else d.toNat?.map some

/-- the saved state of a persistent InputExp: `-` (none) or `R|<valid|expired>|<remaining s or ->|<input or ->` -/
def parseSaved (r : String) : Option (Option SavedExp) :=
  if r == "-" then some none
  else match r.splitOn "|" with
    | ["R", st, rem, inp] => do
      let st ← (if st == "valid" then some St.valid else if st == "expired" then some St.expired else none)
      let rem ← (if rem == "-" then some none else rem.toInt?.map some)
      let inp ← (if inp == "-" then some none else (Val.parse inp).map some)
      pure (some ⟨st, rem, inp⟩)
    | _ => none

def handle (s : DState) : List String → DState × String
  | ["reset", "in", a, c, sc, i] =>
    match parseCfg a c sc, Val.parse i with
    | some cfg, some i =>
      match construct cfg i with
      | (.ok (), cl) =>
        ({ blk := .inp (World.new cfg.allowed cfg.check cfg.schema) i }, "ok" ++ callsStr cl)
      | (.error e, cl) => ({ blk := .none }, errStr e ++ callsStr cl)
    | _, _ => (s, "bad-op")
  | ["reset", "exp", a, c, sc, i, x, d] =>
    match parseCfg a c sc, Val.parse i, Val.parse x, parseDur d with
    | some cfg, some i, some x, some d =>
      match constructExp cfg i x with
      | (.ok (inp, e), cl) =>
        ({ blk := .exp0 cfg inp e d cfg.allowed },
         "ok in=" ++ optStr inp ++ " exp=" ++ e.render ++ callsStr cl)
      | (.error e, cl) => ({ blk := .none }, errStr e ++ callsStr cl)
    | _, _, _, _ => (s, "bad-op")
  | ["init", r] =>
    match s.blk with
    | .inp w i =>
      let r? : Option (Option Val) := if r == "-" then some none else (Val.parse r).map some
      match r? with
      | some r =>
        match init w.cfg r i with
        | (.ok o, cl) => ({ blk := .inp { w with out := o } i }, "ok " ++ o.render ++ callsStr cl)
        | (.notInitialized, cl) => ({ blk := .none }, "err NotInitialized" ++ callsStr cl)
        | (.abort, cl) => ({ blk := .none }, "err Abort" ++ callsStr cl)
      | none => (s, "bad-op")
    | .exp0 cfg inp e d caller =>
      match parseSaved r with
      | none => (s, "bad-op")
      | some saved =>
        let ec : ExpCfg := ⟨cfg, d, e⟩
        match startExp ec inp saved with
        | (some st, cl) => ({ blk := .exp ⟨ec, st, caller⟩ }, "ok " ++ expStr st ++ callsStr cl)
        | (none, cl) => ({ blk := .none }, "err NotInitialized" ++ callsStr cl)
    | _ => (s, "bad-op")
  | ["put", v] =>
    match Val.parse v, s.blk with
    | some v, .inp w i =>
      let (w', res, cl) := w.put v
      let r := match res with
        | .ret true => "ret b1"
        | .ret false => "ret b0"
        | .abort => "err Abort"
      ({ blk := .inp w' i }, r ++ " out=" ++ w'.out.render ++ callsStr cl)
    | some v, .exp w =>
      let (w', b, cl) := w.put v
      ({ blk := .exp w' }, (if b then "ret b1 " else "ret b0 ") ++ expStr w'.s ++ callsStr cl)
    | _, _ => (s, "bad-op")
  | ["wait", d] =>
    match d.toNat?, s.blk with
    | some d, .exp w =>
      let w' := w.wait d
      ({ blk := .exp w' }, expStr w'.s)
    | _, _ => (s, "bad-op")
  | "mutate" :: m =>
    match parseMut m, s.blk with
    | some m, .inp w i => ({ blk := .inp (w.mutate m) i }, "ok")
    | some m, .exp0 cfg inp e d caller =>
      ({ blk := .exp0 cfg inp e d (caller.map (fun l => callerMutate l m)) }, "ok")
    | some m, .exp w => ({ blk := .exp (w.mutate m) }, "ok")
    | _, _ => (s, "bad-op")
  | _ => (s, "bad-op")

end Edzed.Validate
