-- driver-prefix: validate
import EdzedModel.Validate

/-
Line protocol of the Validate model.

  validate reset in  <allowed> <check> <schema> <initdef>
  validate reset exp <allowed> <check> <schema> <initdef> <expired> <duration>
  validate init <restored|->
  validate put <value>
  validate wait <d>

<allowed> = `-` | `A` | `A|v|v…`;  <check> = `-` | `C|<default>|k=v|…`;
<schema> = `-` | `S|<default>|k=r|…` with r = value or `!` (raise).  The scripts are lookup
tables keyed by the exact value (type included: `i1`, `b1` and `f1/1` are different keys).
-/
namespace Edzed.Validate

inductive Blk where
  | none
  | inp (c : Cfg) (initdef : Val) (out : Val)
  | exp0 (c : Cfg) (inp : Option Val) (expired : Val) (dur : Nat)   -- constructed, not started
  | exp (e : ExpCfg) (s : ExpState)

structure DState where
  blk : Blk := .none

instance : Inhabited DState := ⟨{}⟩

def lookup {α : Type} (tbl : List (Val × α)) (d : α) (v : Val) : α :=
  match tbl.find? (fun p => p.1 == v) with
  | some p => p.2
  | none => d

def parseAllowed (s : String) : Option (Option (List Val)) :=
  if s == "-" then some none
  else match s.splitOn "|" with
    | "A" :: r => (r.mapM Val.parse).map some
    | _ => none

def parsePairs {α : Type} (f : String → Option α) (items : List String) : Option (List (Val × α)) :=
  items.mapM fun it =>
    match it.splitOn "=" with
    | [k, v] => do
      let k ← Val.parse k
      let v ← f v
      pure (k, v)
    | _ => none

def parseCheck (s : String) : Option (Option (Val → Val)) :=
  if s == "-" then some none
  else match s.splitOn "|" with
    | "C" :: d :: r => do
      let d ← Val.parse d
      let t ← parsePairs Val.parse r
      pure (some (lookup t d))
    | _ => none

def parseSRes (s : String) : Option (Option Val) :=
  if s == "!" then some none else (Val.parse s).map some

def parseSchema (s : String) : Option (Option (Val → Option Val)) :=
  if s == "-" then some none
  else match s.splitOn "|" with
    | "S" :: d :: r => do
      let d ← parseSRes d
      let t ← parsePairs parseSRes r
      pure (some (lookup t d))
    | _ => none

def parseCfg (a c s : String) : Option Cfg := do
  let a ← parseAllowed a
  let c ← parseCheck c
  let s ← parseSchema s
  pure ⟨a, c, s⟩

def Call.render : Call → String
  | .check v => "c:" ++ v.render
  | .schema v => "s:" ++ v.render

def callsStr (l : List Call) : String := " calls=" ++ "|".intercalate (l.map Call.render)

def errStr : CtorErr → String
  | .typeError => "err TypeError"
  | .valueError => "err ValueError"

def optStr : Option Val → String
  | none => "-"
  | some v => v.render

def stStr : St → String
  | .valid => "valid"
  | .expired => "expired"

def expStr (s : ExpState) : String :=
  "st=" ++ stStr s.st ++ " out=" ++ s.out.render ++ " val=" ++ optStr s.value

def handle (s : DState) : List String → DState × String
  | ["reset", "in", a, c, sc, i] =>
    match parseCfg a c sc, Val.parse i with
    | some cfg, some i =>
      match construct cfg i with
      | (.ok (), cl) => ({ blk := .inp cfg i .undef }, "ok" ++ callsStr cl)
      | (.error e, cl) => ({ blk := .none }, errStr e ++ callsStr cl)
    | _, _ => (s, "bad-op")
  | ["reset", "exp", a, c, sc, i, x, d] =>
    match parseCfg a c sc, Val.parse i, Val.parse x, d.toNat? with
    | some cfg, some i, some x, some d =>
      match constructExp cfg i x with
      | (.ok (inp, e), cl) =>
        ({ blk := .exp0 cfg inp e d }, "ok in=" ++ optStr inp ++ " exp=" ++ e.render ++ callsStr cl)
      | (.error e, cl) => ({ blk := .none }, errStr e ++ callsStr cl)
    | _, _, _, _ => (s, "bad-op")
  | ["init", r] =>
    match s.blk with
    | .inp cfg i _ =>
      let r? : Option (Option Val) := if r == "-" then some none else (Val.parse r).map some
      match r? with
      | some r =>
        match init cfg r i with
        | (.ok o, cl) => ({ blk := .inp cfg i o }, "ok " ++ o.render ++ callsStr cl)
        | (.notInitialized, cl) => ({ blk := .none }, "err NotInitialized" ++ callsStr cl)
        | (.abort, cl) => ({ blk := .none }, "err Abort" ++ callsStr cl)
      | none => (s, "bad-op")
    | .exp0 cfg inp e d =>
      if r != "-" then (s, "bad-op") else
      let ec : ExpCfg := ⟨cfg, d, e⟩
      match initExp ec inp with
      | some st => ({ blk := .exp ec st }, "ok " ++ expStr st)
      | none => ({ blk := .none }, "err NotInitialized")
    | _ => (s, "bad-op")
  | ["put", v] =>
    match Val.parse v, s.blk with
    | some v, .inp cfg i o =>
      let p := put cfg o v
      let r := match p.res with
        | .ret true => "ret b1"
        | .ret false => "ret b0"
        | .abort => "err Abort"
      ({ blk := .inp cfg i p.out }, r ++ " out=" ++ p.out.render ++ callsStr p.calls)
    | some v, .exp ec st =>
      let (st', b, cl) := putExp ec st v
      ({ blk := .exp ec st' }, (if b then "ret b1 " else "ret b0 ") ++ expStr st' ++ callsStr cl)
    | _, _ => (s, "bad-op")
  | ["wait", d] =>
    match d.toNat?, s.blk with
    | some d, .exp ec st =>
      let st' := wait ec st d
      ({ blk := .exp ec st' }, expStr st')
    | _, _ => (s, "bad-op")
  | _ => (s, "bad-op")

end Edzed.Validate
