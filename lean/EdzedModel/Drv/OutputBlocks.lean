-- driver-prefix: oblocks OutputBlocks
import EdzedModel.OutputBlocks

namespace Edzed.OutputBlocks

structure DState where
  cfg : FuncCfg := ⟨[], [], 0, 0, none⟩
  log : List FEv := []
  deriving Inhabited

/-- `S` a str | `N` not a sequence | `L:a,b,#` a sequence (`#` = an item that is not a str; `L:` = empty) -/
def parseArgSpec? (s : String) : Option ArgSpec :=
  if s == "S" then some (.str "abc")
  else if s == "N" then some .notSeq
  else if s.startsWith "L:" then
    let body := (s.drop 2).toString
    if body.isEmpty then some (.seq [])
    else some (.seq ((body.splitOn ",").map fun x => if x == "#" then none else some x))
  else none

/-- `n` None | `e<k>` k events | `b` not an event -/
def parseEvArg? (s : String) : Option EvArg :=
  if s == "n" then some .none
  else if s == "b" then some .bad
  else if s.startsWith "e" then ((s.drop 1).toString.toNat?).map EvArg.events
  else none

/-- `n` None | `b` refused by time_period | µs -/
def parseGuard? (s : String) : Option GuardArg :=
  if s == "n" then some .none
  else if s == "b" then some .bad
  else s.toInt?.map GuardArg.period

def parseOptData? (s : String) : Option (Option Data) :=
  if s == "-" then some none else (Data.parse s).map some

def errStr : InitErr → String
  | .argsNotStrings => "argsNotStrings"
  | .notEvents => "notEvents"
  | .badGuard => "badGuard"
  | .badMode => "badMode"
  | .superInit => "superInit"
  | .guardExceeds => "guardExceeds"

def ctrlStr : CtrlMode → String
  | .cancel => "cancel"
  | .wait => "wait"
  | .start => "start"

def argSpecStr : ArgSpec → String
  | .seq items => "L:" ++ ",".intercalate (items.map fun x => x.getD "#")
  | .str _ => "S"
  | .notSeq => "N"

/-- the scripted user function of the harness: raises (exception 1) when an argument is the string "boom",
    else returns its first positional argument (None without one) -/
def scriptF : Func := fun args kwargs =>
  if args.any (fun v => v.pyEq (Val.str "boom")) || kwargs.any (fun p => p.2.pyEq (Val.str "boom")) then .error 1
  else .ok (args.headD Val.none)

def fevStr : FEv → String
  | .call args kwargs => "call(" ++ ",".intercalate (args.map Val.render) ++ "|" ++ Data.render kwargs ++ ")"
  | .success d v => s!"success{d}:{v.render}"
  | .error d e => s!"error{d}:{e}"
  | .superStop => "superStop"
  | .output b => s!"output:{b}"

def fresStr : FRes → String
  | .result v => "result " ++ v.render
  | .error e => s!"error {e}"
  | .keyError k => "KeyError " ++ k

def renderNew (old new : List FEv) : String :=
  let l := (new.drop old.length).map fevStr
  if l.isEmpty then "-" else " ".intercalate l

def keysOf (s : String) : List String := if s == "-" then [] else s.splitOn ","

def handle (s : DState) : List String → DState × String
  | ["ctor", mode, fa, fk, g, onS, onC, onE, sd, st] =>
    match parseArgSpec? fa, parseArgSpec? fk, parseGuard? g, parseEvArg? onS, parseEvArg? onC, parseEvArg? onE,
      parseOptData? sd with
    | some fa, some fk, some g, some onS, some onC, some onE, some sd =>
      let stv : Option (Option Int) := if st == "b" then some none else st.toInt?.map some
      match stv with
      | none => (s, "bad-op")
      | some stv =>
        match constructAsync ⟨mode, fa, fk, g, onS, onC, onE, sd, stv⟩ with
        | .ok b => (s, s!"ok {ctrlStr b.ctrl} {b.guard} {argSpecStr b.fArgs} {argSpecStr b.fKwargs} {b.nSuccess} {b.nCancel} {b.nError}")
        | .error e => (s, "err " ++ errStr e)
    | _, _, _, _, _, _, _ => (s, "bad-op")
  | ["fctor", fa, fk, onS, onE, sd, sup] =>
    match parseArgSpec? fa, parseArgSpec? fk, parseEvArg? onS, parseEvArg? onE, parseOptData? sd with
    | some fa, some fk, some onS, some onE, some sd =>
      match constructFunc ⟨fa, fk, onS, onE, sd, sup == "1"⟩ with
      | .ok b => (s, s!"ok {argSpecStr b.fArgs} {argSpecStr b.fKwargs} {b.nSuccess} {b.nError}")
      | .error e => (s, "err " ++ errStr e)
    | _, _, _, _, _ => (s, "bad-op")
  | ["func", fa, fk, nS, nE, sd] =>
    match nS.toNat?, nE.toNat?, parseOptData? sd with
    | some nS, some nE, some sd =>
      let log := initRegular []
      ({ cfg := ⟨keysOf fa, keysOf fk, nS, nE, sd⟩, log := log }, renderNew [] log)
    | _, _, _ => (s, "bad-op")
  | ["fput", d] =>
    match Data.parse d with
    | some d =>
      let (log, res) := eventPut s.cfg scriptF s.log d
      ({ s with log := log }, fresStr res ++ " " ++ renderNew s.log log)
    | none => (s, "bad-op")
  | ["fstop"] =>
    let (log, k) := stop s.cfg scriptF s.log
    ({ s with log := log }, (match k with | some k => "KeyError " ++ k | none => "ok") ++ " " ++ renderNew s.log log)
  | _ => (s, "bad-op")

end Edzed.OutputBlocks
