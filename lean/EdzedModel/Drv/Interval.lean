-- driver-prefix: interval
import EdzedModel.Interval
import EdzedModel.Basic.Val

/-!
Line protocol of the interval model.

  interval parse <t|d|dt> <tree>      → ok <ranges> | err ValueError | err TypeError | unsupported
  interval endpoints                  → the values of range_endpoints(), sorted, `,`-joined (`-` = none)
  interval str                        → s<hex of as_string()>            (of the last parsed interval)
  interval in <i.i.i…>                → b0 | b1                          (`x in interval`)
  interval td <tree|n> <tree|n> <tree|n>  → ok <times|n> <dates|n> <weekdays|n> | err … | unsupported
  interval ts <tree>                  → as `parse dt` (TimeSpan.parse)

tree := s<hex utf-8> | i<int> | [tree,tree,…]          (no spaces)
ranges := `-` (empty) or ranges joined by `,`; a range is start/stop; an endpoint is its integers joined by `.`
-/
namespace Edzed.Interval

inductive Tree where
  | str (s : List Char)
  | int (i : Int)
  | seq (l : List Tree)
  deriving Inhabited

structure DState where
  cur : Option (Kind × List Range) := none
  deriving Inhabited

/-- recursive descent; returns the tree and the remaining input -/
partial def parseTree : List Char → Option (Tree × List Char)
  | 's' :: r =>
    let h := r.takeWhile fun c => c != ',' && c != ']'
    match hexDecode (String.ofList h) with
    | some s => some (.str s.toList, r.drop h.length)
    | none => none
  | 'i' :: r =>
    let h := r.takeWhile fun c => c != ',' && c != ']'
    match (String.ofList h).toInt? with
    | some i => some (.int i, r.drop h.length)
    | none => none
  | '[' :: ']' :: r => some (.seq [], r)
  | '[' :: r =>
    let rec items (acc : List Tree) (r : List Char) : Option (Tree × List Char) :=
      match parseTree r with
      | some (t, ',' :: r') => items (t :: acc) r'
      | some (t, ']' :: r') => some (.seq (t :: acc).reverse, r')
      | _ => none
    items [] r
  | _ => none

def parseTreeAll (s : String) : Option Tree :=
  match parseTree s.toList with
  | some (t, []) => some t
  | _ => none

def intOf : Tree → Option Int
  | Tree.int i => some i
  | _ => none

def toEp : Tree → Option EpIn
  | .str s => some (.str s)
  | .int _ => some .bad
  | .seq l => (l.mapM intOf).map .ints

def toRange : Tree → Option RangeIn
  | .str s => some (.str s)
  | .int _ => some .bad
  | .seq l => (l.mapM toEp).map .seq

def toIv : Tree → Option IvIn
  | .str s => some (.str s)
  | .int _ => some .bad
  | .seq l => (l.mapM toRange).map .seq

def toWd : Tree → Option WdIn
  | .str s => some (.str s)
  | .seq l => (l.mapM intOf).map .ints
  | .int _ => none

def kindOf : String → Option Kind
  | "t" => some .time
  | "d" => some .date
  | "dt" => some .datetime
  | _ => none

def epStr (e : Ep) : String := ".".intercalate (e.map toString)

def rangesStr (iv : List Range) : String :=
  if iv.isEmpty then "-" else ",".intercalate (iv.map fun r => epStr r.1 ++ "/" ++ epStr r.2)

def errStr : Err → String
  | .value => "err ValueError"
  | .type => "err TypeError"

def resStr (f : α → String) : Res α → String
  | .ok a => "ok " ++ f a
  | .err e => errStr e
  | .unsupported => "unsupported"

def optTree (f : Tree → Option α) (s : String) : Option (Option α) :=
  if s == "n" then some none else (parseTreeAll s).bind fun t => (f t).map some

def optStr (f : α → String) : Option α → String
  | none => "n"
  | some a => f a

def parseEp (s : String) : Option Ep := (s.splitOn ".").mapM String.toNat?

def handle (s : DState) : List String → DState × String
  | ["parse", k, t] =>
    match kindOf k, (parseTreeAll t).bind toIv with
    | some k, some iv =>
      let r := parseInterval k iv
      match r with
      | .ok l => ({ cur := some (k, l) }, resStr rangesStr r)
      | _ => ({ cur := none }, resStr rangesStr r)
    | _, _ => (s, "bad-op")
  | ["ts", t] =>
    match (parseTreeAll t).bind toIv with
    | some iv => (s, resStr rangesStr (timeSpanParse iv))
    | none => (s, "bad-op")
  | ["td", a, b, c] =>
    match optTree toIv a, optTree toIv b, optTree toWd c with
    | some a, some b, some c =>
      (s, resStr (fun (cfg : TimeDateCfg) =>
        optStr rangesStr cfg.times ++ " " ++ optStr rangesStr cfg.dates ++ " "
          ++ optStr (fun w => if w.isEmpty then "-" else epStr w) cfg.weekdays) (timeDateParse a b c))
    | _, _, _ => (s, "bad-op")
  | ["endpoints"] =>
    -- `range_endpoints()` is a set: printed sorted, each value once
    match s.cur with
    | some (_, l) =>
      let ins (e : Ep) (acc : List Ep) : List Ep :=
        if acc.contains e then acc else (acc.filter fun x => lt x e) ++ e :: (acc.filter fun x => lt e x)
      let es := (rangeEndpoints l).foldl (fun acc e => ins e acc) []
      (s, if es.isEmpty then "-" else ",".intercalate (es.map epStr))
    | none => (s, "unsupported")
  | ["str"] =>
    match s.cur with
    | some (k, l) => (s, "s" ++ hexEncode (String.ofList (asString k l)))
    | none => (s, "unsupported")
  | ["in", e] =>
    match s.cur, parseEp e with
    | some (k, l), some e => (s, if contains k l e then "b1" else "b0")
    | none, some _ => (s, "unsupported")
    | _, none => (s, "bad-op")
  | _ => (s, "bad-op")

end Edzed.Interval
