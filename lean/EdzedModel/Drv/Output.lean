-- driver-prefix: output
/- line-protocol glue for the output-event model (parsing / printing only)

  output reset <S|C> <name> <on_output events> <on_every_output events>     -> ok
  output assign <value>            -> err ValueError | ok <stored output> r<-|0|1> <act> <act> …
  output fsm <calc_output value>   -> skip (UNDEF: output left alone) | as `assign`

  event list:  `-` or events joined by `|`;   event: `<dest>:<etype>:<filters>`;
  filters: `-` or scripts joined by `+`;  script: A | R | S~key~val | D~key | C~src~dst | T~key | U~key | X | M~data
  acts:  q | f:<etype>:<fidx>:<data> | d:<dest>:<etype>:<data>:<visible output>
-/
import EdzedModel.Output

namespace Edzed.Output

structure DState where
  kind : BKind := .sblock
  cfg : Cfg := { name := "" }
  out : Val := .undef
  deriving Inhabited

def splitField (s : String) (sep : String) : List String :=
  if s == "-" || s == "" then [] else s.splitOn sep

def parseFilt (s : String) : Option Filt :=
  match s.splitOn "~" with
  | ["A"] => some .accept
  | ["R"] => some .reject
  | ["S", k, v] => Filt.set k <$> Val.parse v
  | ["D", k] => some (.del k)
  | ["C", a, b] => some (.copy a b)
  | ["T", k] => some (.ifTruthy k)
  | ["U", k] => some (.ifDefined k)
  | ["X"] => some .clear
  | ["M", m] => Filt.replace <$> Data.parse m
  | _ => none

def parseEv (s : String) : Option Ev :=
  match s.splitOn ":" with
  | [d, t, fs] => (fun l => { dest := d, etype := t, filters := l }) <$> (splitField fs "+").mapM parseFilt
  | _ => none

def parseEvs (s : String) : Option (List Ev) := (splitField s "|").mapM parseEv

def slotStr : Slot → String
  | .output => "o"
  | .every => "e"

/-- an act is printed with the event type of the configured event it belongs to (unique per `Event`
    object in the harness; the position is the order of the acts) -/
def etypeOf (c : Cfg) (sl : Slot) (i : Nat) : String :=
  match (match sl with | .output => c.onOutput | .every => c.onEvery)[i]? with
  | some e => e.etype
  | none => "?"

def actStr (c : Cfg) : Act → String
  | .enqueue => "q"
  | .filt sl i j d => s!"f:{etypeOf c sl i}:{j}:{d.render}"
  | .deliver _ _ dest et d vis => s!"d:{dest}:{et}:{d.render}:{vis.render}"

def stepStr (c : Cfg) (k : BKind) (s : Step) : String :=
  let r := match k with
    | .sblock => "r-"
    | .cblock => if s.changed then "r1" else "r0"
  " ".intercalate (["ok", s.out.render, r] ++ s.acts.map (actStr c))

def handle (s : DState) : List String → DState × String
  | ["reset", k, name, on, every] =>
    let kind? : Option BKind := match k with
      | "S" => some .sblock
      | "C" => some .cblock
      | _ => none
    match kind?, parseEvs on, parseEvs every with
    | some kind, some on, some every =>
      ({ kind := kind, cfg := { name := name, onOutput := on, onEvery := every }, out := .undef }, "ok")
    | _, _, _ => (s, "bad-op")
  | ["assign", v] =>
    match Val.parse v with
    | some v =>
      let r : Rec := ⟨s.out, v, assign s.kind s.cfg s.out v⟩
      ({ s with out := r.after },
       match r.res with
       | .valueError => "err ValueError"
       | .ok st => stepStr s.cfg s.kind st)
    | none => (s, "bad-op")
  | ["fsm", v] =>
    -- an accepted FSM transition whose new state has the output `v` (sequential senders only)
    match Val.parse v, s.kind with
    | some v, .sblock =>
      match fsmTransition s.cfg s.out v with
      | none => (s, "skip")
      | some res =>
        let r : Rec := ⟨s.out, v, res⟩
        ({ s with out := r.after },
         match r.res with
         | .valueError => "err ValueError"
         | .ok st => stepStr s.cfg s.kind st)
    | _, _ => (s, "bad-op")
  | ["out"] => (s, s.out.render)
  | _ => (s, "bad-op")

end Edzed.Output
