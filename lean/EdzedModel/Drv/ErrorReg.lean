-- driver-prefix: errreg ErrorReg
/- line-protocol glue for the error-register model (parsing / printing only) -/
import EdzedModel.ErrorReg

namespace Edzed.ErrorReg

structure DState where
  st : St := {}
  deriving Inhabited

def errStr : Err → String
  | .cancelled t => s!"c{t}"
  | .exc i => s!"x{i}"
  | .wrapped i => s!"w{i}"
  | .reported i => s!"r{i}"
  | .notInit => "ni"
  | .reportedText => "rt"

def errOptStr : Option Err → String
  | none => "-"
  | some e => errStr e

def parseErr (s : String) : Option Err :=
  match s.toList with
  | 'c' :: r => Err.cancelled <$> (String.ofList r).toNat?
  | 'x' :: r => Err.exc <$> (String.ofList r).toNat?
  | 'w' :: r => Err.wrapped <$> (String.ofList r).toNat?
  | ['r', 't'] => some .reportedText
  | 'r' :: r => Err.reported <$> (String.ofList r).toNat?
  | ['n', 'i'] => some .notInit
  | _ => none

def replyStr : Reply → String
  | .ok => "ok"
  | .raised e => "raised:" ++ errStr e
  | .typeError => "TypeError"
  | .unknownEvent => "UnknownEvent"
  | .invalidState => "InvalidState"
  | .attributeError => "AttributeError"

def b01 (b : Bool) : String := if b then "1" else "0"

def parseFamily : String → Option Family
  | "g" => some .generic
  | "c" => some .circuitError
  | "i" => some .invalidState
  | "u" => some .unknownEvent
  | "t" => some .typeError
  | _ => none

def parseOp : List String → Option Op
  | ["start", "-"] => some (.start none)
  | ["start", i] => (fun n => Op.start (some n)) <$> i.toNat?
  | ["abort", e] => Op.abortCall <$> parseErr e
  | ["handlerErr", i, f] => do pure (.handlerErr (← i.toNat?) (← parseFamily f))
  | ["handlerErr", i] => (fun n => Op.handlerErr n .generic) <$> i.toNat?       -- (C14's protocol: a generic exception)
  | ["earlyInitFail", i] => Op.earlyInitFail <$> i.toNat?
  | ["paramErr"] => some .paramErr
  | ["unknownEvt"] => some .unknownEvt
  | ["nestedUnknown"] => some (.nestedUnknown true)
  | ["fsmSelfUnknown"] => some (.nestedUnknown false)
  | ["ctrlAbort", i] => Op.ctrlAbort <$> i.toNat?
  | ["ctrlAbortText"] => some .ctrlAbortText
  | ["ctrlShutdown"] => some .ctrlShutdown
  | ["armCalc", i] => (fun n => Op.armCalc (.calc n)) <$> i.toNat?
  | ["armCalcHandler", i, f] => do pure (.armCalc (.calcHandler (← i.toNat?) (← parseFamily f)))
  | ["armCalcHandler", i] => (fun n => Op.armCalc (.calcHandler n .generic)) <$> i.toNat?
  | ["rawCancel"] => some .rawCancel
  | ["monTrigger", i] => Op.monTrigger <$> i.toNat?
  | ["supFail", i, e] => do pure (.supTrigger (← i.toNat?) (some (← e.toNat?)))
  | ["supEnd", i] => (fun n => Op.supTrigger n none) <$> i.toNat?
  | ["shutdownTask"] => some .shutdownTask
  | ["sigterm"] => some .sigterm
  | ["tick"] => some .tick
  | ["finish"] => some .finish
  | _ => none

/-- observable state after every operation -/
def obs (s : St) : String :=
  s!"ready={b01 s.ready} err={errOptStr s.error}"

/-- `settle`: loop iterations until nothing is scheduled any more (glue: repeated `tick`) -/
def settle : Nat → St → St
  | 0, s => s
  | n + 1, s => if s.wake.isEmpty then s else settle n (step s .tick).1

/-- a cancellation re-raised by `await task` may be a fresh object: only its kind is compared -/
def rfStr : Option Err → String
  | some (.cancelled _) => "c"
  | e => errOptStr e

def handle (d : DState) : List String → DState × String
  | ["op", "settle"] =>
    let s := settle 64 d.st
    ({ st := s }, "ok " ++ obs s)
  | ["reset", rm, slow] =>
    ({ st := { runMode := rm == "1", slowCleanup := slow == "1" } }, "ok")
  | "sop" :: r =>      -- silent operation: the implementation cannot be observed at this point
    match parseOp r with
    | some op => ({ st := (step d.st op).1 }, "ok")
    | none => (d, "bad-op")
  | "eop" :: r =>      -- an operation of which only the caller's reply can be observed
    match parseOp r with
    | some op =>
      let (s, o) := step d.st op
      ({ st := s }, replyStr o.reply)
    | none => (d, "bad-op")
  | "op" :: r =>
    match parseOp r with
    | some op =>
      let (s, o) := step d.st op
      ({ st := s }, replyStr o.reply ++ " " ++ obs s)
    | none => (d, "bad-op")
  | ["waitinit", "-"] => (d, replyStr (waitInitReply d.st none))
  | ["waitinit", i] =>
    match i.toNat? with
    | some n => (d, replyStr (waitInitReply d.st (some n)))
    | none => (d, "bad-op")
  | ["result", "-"] =>
    (d, s!"rf={rfStr (runForeverRaises d.st)} sd={errOptStr (shutdownRaises d.st)} run=-")
  | ["result", n] =>
    match n.toNat? with
    | some n =>
      (d, s!"rf={rfStr (runForeverRaises d.st)} sd={errOptStr (shutdownRaises d.st)} run={errOptStr (runRaises d.st n)}")
    | none => (d, "bad-op")
  | _ => (d, "bad-op")

end Edzed.ErrorReg
