-- driver-prefix: ainit AsyncInit
/- line-protocol glue for the model of the async-init methods (parsing / printing only) -/
import EdzedModel.AsyncInit

namespace Edzed.AsyncInit

structure DState where
  obj : Obj := {}

instance : Inhabited DState := ⟨{}⟩

def outcomeStr : Outcome → String
  | .done _ _ => "ok"
  | .raised cls _ => "err " ++ cls
  | .blocked _ => "blocked"
  | .again _ => "again"
  | .stuck _ => "stuck"

def stateStr (o : Obj) : String :=
  let ev := match o.ev with
    | some true => "1"
    | some false => "0"
    | none => "-"
  s!"ev={ev} out={o.out.render}"

def handle (s : DState) : List String → DState × String
  -- ValuePoll(func, interval): the period computed by utils.time_period (n = None)
  | ["vpctor", p] =>
    let per : Option (Option Rat) := if p == "n" then some none else (ratParse p).map some
    match per with
    | some per => (s, outcomeStr (vpInit { periodOfInterval := per } {}))
    | none => (s, "bad-op")
  -- InitAsync(init_coro): is it a Sequence / non-empty
  | ["iactor", a, b] =>
    if (a == "0" || a == "1") && (b == "0" || b == "1") then
      (s, outcomeStr (iaInit { coroIsSequence := a == "1", coroNonEmpty := b == "1" } {}))
    else (s, "bad-op")
  -- a ValuePoll after `start()`
  | ["vpstart"] => ({ obj := aiStart (aiInit {}) }, "ok")
  -- one pass of the acquisition loop with the polled value (u = UNDEF), plain or as a coroutine result
  | ["poll", v, co] =>
    match Val.parse v with
    | some val =>
      if co != "0" && co != "1" then (s, "bad-op") else
      let r := vpPass { polled := val, polledIsCoro := co == "1", asyncInitClass := true } s.obj
      ({ obj := r.obj }, outcomeStr r ++ " " ++ stateStr r.obj ++
        " ready=" ++ (if (aiInitAsync r.obj).isDone then "1" else "0"))
    | none => (s, "bad-op")
  | _ => (s, "bad-op")

end Edzed.AsyncInit
