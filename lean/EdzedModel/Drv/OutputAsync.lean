-- driver-prefix: oasync
import EdzedModel.OutputAsync

namespace Edzed.OutputAsync

structure DState where
  cfg : Cfg := ⟨.wait, 0, none, 0⟩
  st : State := {}
  deriving Inhabited

def parseMode? : String → Option Mode
  | "wait" => some .wait
  | "cancel" => some .cancel
  | "start" => some .start
  | _ => none

def parseBool? : String → Option Bool
  | "0" => some false
  | "1" => some true
  | _ => none

def parseItem? (id dur fail empty : String) : Option Item :=
  match id.toNat?, dur.toNat?, parseBool? fail, parseBool? empty with
  | some i, some d, some f, some e => some ⟨i, d, f, e⟩
  | _, _, _, _ => none

/-- `-` or `id:dur:fail:empty` -/
def parseStopData? (s : String) : Option (Option Item) :=
  if s == "-" then some none
  else match s.splitOn ":" with
    | [i, d, f, e] => (parseItem? i d f e).map some
    | _ => none

/-- `kind/id` of a logged event; the arrival marker `put` is an input, not an observation -/
def evStr : Ev → Option String
  | .put _ => none
  | .late _ => none
  | .timeout => none
  | .out n => some s!"out/{n}"
  | .start j => some s!"start/{j.data.id}"
  | .done j => some s!"end/{j.data.id}"
  | .cancelled j => some s!"cancelled/{j.data.id}"
  | .succ j => some s!"succ/{j.data.id}"
  | .err j => some s!"err/{j.data.id}"
  | .canc j => some s!"canc/{j.data.id}"

def insertSorted (x : String) : List String → List String
  | [] => [x]
  | y :: ys => if x < y || x == y then x :: y :: ys else y :: insertSorted x ys

def sortStrings (l : List String) : List String := l.foldr insertSorted []

/-- chronological log (oldest first) of the observable events -/
def chrono (s : State) : List (Nat × Ev) := s.log.reverse.filter (fun e => (evStr e.2).isSome)

def renderOrdered (l : List (Nat × Ev)) : String :=
  let items := l.filterMap (fun e => (evStr e.2).map (fun x => s!"{e.1}/{x}"))
  if items.isEmpty then "-" else ",".intercalate items

/-- start mode: the events of one instant are unordered (equal timers fire in heap order):
    per instant the sorted events other than output changes, then the output at its end -/
def renderInstants (l : List (Nat × Ev)) : String :=
  let rec go (fuel : Nat) (l : List (Nat × Ev)) (out : Nat) (acc : List String) : List String :=
    match fuel, l with
    | 0, _ => acc.reverse
    | _, [] => acc.reverse
    | fuel + 1, (t, e) :: rest =>
      let grp := (t, e) :: rest.takeWhile (fun x => x.1 == t)
      let rest' := rest.dropWhile (fun x => x.1 == t)
      let out' := grp.foldl (fun o x => match x.2 with | .out n => n | _ => o) out
      let evs := grp.filterMap (fun x => match x.2 with | .out _ => none | e => evStr e)
      go fuel rest' out' (s!"{t}:{"+".intercalate (sortStrings evs)}=out{out'}" :: acc)
  let r := go l.length l 0 []
  if r.isEmpty then "-" else ",".intercalate r

/-- the instant at which the clean-up was over: the stop, or the last observable event after it
    (late puts move the model's clock but are not part of the block's work) -/
def endTime (st : State) : Nat :=
  match st.log.find? (fun e => (evStr e.2).isSome) with
  | some e => max e.1 (st.stopAt.getD 0)
  | none => st.stopAt.getD st.now

def handle (s : DState) : List String → DState × String
  | ["reset", m, g, sd, to] =>
    match parseMode? m, g.toNat?, parseStopData? sd, to.toNat? with
    | some m, some g, some sd, some to => ({ cfg := ⟨m, g, sd, to⟩, st := {} }, "ok")
    | _, _, _, _ => (s, "bad-op")
  | ["put", t, pre, batch, id, dur, fail, empty] =>
    match t.toNat?, parseBool? pre, parseBool? batch, parseItem? id dur fail empty with
    | some t, some pre, some batch, some x =>
      let st := step s.cfg s.st (.put t pre batch x)
      ({ s with st := st }, if st.nacc == s.st.nacc then "late" else "ok")
    | _, _, _, _ => (s, "bad-op")
  | ["stop", t, pre, batch] =>
    match t.toNat?, parseBool? pre, parseBool? batch with
    | some t, some pre, some batch => ({ s with st := step s.cfg s.st (.stop t pre batch) }, "ok")
    | _, _, _ => (s, "bad-op")
  | ["finish"] =>
    let st := step s.cfg s.st .finish
    ({ s with st := st },
      s!"idle={st.runs.isEmpty && st.queue.isEmpty && st.sdPending.isNone} out={st.output} t={endTime st}")
  | ["log"] =>
    (s, if s.cfg.mode == .start then renderInstants (chrono s.st) else renderOrdered (chrono s.st))
  | _ => (s, "bad-op")

end Edzed.OutputAsync
