-- driver-prefix: init
/- line-protocol glue for the start-up model (parsing / printing only) -/
import EdzedModel.Init

namespace Edzed.Init

structure DState where
  res : St := {}
  n : Nat := 0

instance : Inhabited DState := ⟨{}⟩

/-- a script value: anything but UNDEF -/
def parseVal (s : String) : Option Val :=
  match Val.parse s with
  | some .undef => none
  | r => r

def parseHowVal (s : String) : Option (Val × How) :=
  match s.toList with
  | 'v' :: r => (fun v => (v, How.direct)) <$> parseVal (String.ofList r)
  | 'e' :: r => (fun v => (v, How.viaEvent)) <$> parseVal (String.ofList r)
  | _ => none

def parsePersist (s : String) : Option Persist :=
  if s == "-" then some .none
  else if s == "x" then some .raises
  else (fun p => Persist.restores p.1 p.2) <$> parseHowVal s

def parseAsync (s : String) : Option Async :=
  match s.splitOn ":" with
  | ["-"] => some .none
  | ["never"] => some .never
  | ["fail", d] => Async.fails <$> d.toNat?
  | ["ret", v, d] => do pure (.returns (← parseVal v) (← d.toNat?))
  | _ => none

def parseRegular (s : String) : Option Regular :=
  if s == "-" then some .none
  else if s == "x" then some .raises
  else if s == "q" then some .quietNone
  else match s.toList with
    | 'v' :: r => Regular.sets <$> parseVal (String.ofList r)
    | 'e' :: r => Regular.viaEvent <$> parseVal (String.ofList r)
    | _ => none

def parseOpt {α : Type} (p : String → Option α) (s : String) : Option (Option α) :=
  if s == "-" then some none else some <$> p s

def parseDests (s : String) : Option (List Nat) :=
  if s == "-" then some [] else (s.splitOn ",").mapM String.toNat?

def parseBlk (tie : Bool) (s : String) : Option Blk :=
  match s.splitOn "~" with
  | [p, a, t, r, d, st, m, ds] => do
    let mon ← if m == "m" then some true else if m == "-" then some false else none
    pure { persist := ← parsePersist p, async := ← parseAsync a, timeout := ← t.toInt?,
           regular := ← parseRegular r, initdef := ← parseOpt parseHowVal d,
           start := ← parseOpt parseVal st, monitored := mon, tieWin := tie, dests := ← parseDests ds }
  | _ => none

def parseCblocks (s : String) : Option (List CScript) :=
  if s == "-" then some []
  else (s.splitOn ",").mapM fun t =>
    match t.toList with
    | ['x'] => some .raises
    | 'r' :: r => CScript.returns <$> Val.parse (String.ofList r)     -- `ru` = returns UNDEF
    | _ => none

def parseTies (s : String) : Option (List Bool) :=
  s.toList.mapM fun ch => if ch == '1' then some true else if ch == '0' then some false else none

def entryStr : Entry → String
  | .start b => s!"S{b}"
  | .arrive b => s!"V{b}"
  | .refused b => s!"X{b}"
  | .fuelOut => "FUEL"
  | .handle b v k => s!"E{b}={v.render}@{k}"
  | .restore b => s!"P{b}"
  | .async b u t => s!"A{b}" ++ (if u then "u" else "i") ++ (if t > 0 then "+" else "0")
  | .asyncDone b => s!"A+{b}"
  | .asyncFail b => s!"Af{b}"
  | .asyncCancel b => s!"Ac{b}"
  | .regular b => s!"R{b}"
  | .initdef b u => s!"D{b}" ++ (if u then "u" else "i")

def resultStr (n : Nat) (s : St) : String :=
  let w := match waitInit ⟨s.initDone, s.failed, s.failed⟩ with
    | .returned => "returned"
    | .raised => "raised"
    | .waiting => "waiting"
  let body := match s.errorKind with
    | some k => "fail " ++ k
    | none => "ok " ++ ",".intercalate ((List.range n).map fun b => (s.out b).render)
  let t := if s.aborted then "" else s!" t={s.elapsed}"
  let co := if s.errorKind.isNone then " c=" ++ (if s.cout.isEmpty then "-" else ",".intercalate (s.cout.map Val.render)) else ""
  s!"{w} ready={if s.running then 1 else 0} done={if s.initDone then 1 else 0} {body}{t}{co}"

def handle (s : DState) : List String → DState × String
  | "reset" :: n :: cbs :: ties :: toks =>
    match n.toNat?, parseCblocks cbs, parseTies ties with
    | some n, some cbs, some ties =>
      if toks.length ≠ n ∨ ties.length ≠ n then (s, "bad-op") else
      match (toks.zip ties).mapM (fun p => parseBlk p.2 p.1) with
      | some blks =>
        if blks.any (fun b => b.dests.any (· ≥ n)) then (s, "bad-op") else
        let c : Cfg := { n := n, blk := fun i => blks.getD i {}, cblocks := cbs, fuel := 64 + 16 * n }
        ({ res := run c, n := n }, "ok")
      | none => (s, "bad-op")
    | _, _, _ => (s, "bad-op")
  | ["log"] =>
    (s, "log " ++ (if s.res.log.isEmpty then "-" else ",".intercalate (s.res.log.map entryStr)))
  | ["result"] => (s, resultStr s.n s.res)
  | _ => (s, "bad-op")

end Edzed.Init
