-- driver-prefix: timeunits
import EdzedModel.TimeUnits

/-!
Line protocol of the duration functions (stateless):

    timeunits convert s<hex>              → ok f<num>/<den> | err ValueError <reason>
    timeunits period <val>                → ok n | ok f<num>/<den> | err ValueError <reason> | err TypeError
    timeunits timestr <num val> <prec> s<hex sep>   → ok s<hex> | err ValueError
    timeunits approx <num val> s<hex sep>           → ok s<hex> | err ValueError
-/
namespace Edzed.TimeUnits

structure DState where
  dummy : Unit := ()
  deriving Inhabited

def Err.render : Err → String
  | .syntax => "syntax"
  | .fraction => "fraction"
  | .calendar => "calendar"
  | .empty => "empty"

def parseStr? (s : String) : Option String :=
  match Val.parse s with
  | some (.atom (.str t)) => some t
  | _ => none

def parseSecs? (s : String) : Option Secs :=
  match Val.parse s with
  | some (.atom (.num q .float)) => some (.float q)
  | some (.atom (.num q _)) => if q.den = 1 then some (.int q.num) else none
  | _ => none

def strReply : Option (List Char) → String
  | some cs => "ok s" ++ hexEncode (String.ofList cs)
  | none => "err ValueError"

def handle (s : DState) : List String → DState × String
  | ["reset"] => (s, "ok")
  | ["convert", a] =>
    match parseStr? a with
    | some t =>
      match convert t.toList with
      | .ok q => (s, "ok f" ++ ratRender q)
      | .error e => (s, "err ValueError " ++ e.render)
    | none => (s, "bad-op")
  | ["period", a] =>
    match Val.parse a with
    | some v =>
      match timePeriod v with
      | .ok none => (s, "ok n")
      | .ok (some q) => (s, "ok f" ++ ratRender q)
      | .error (.value e) => (s, "err ValueError " ++ e.render)
      | .error .type => (s, "err TypeError")
    | none => (s, "bad-op")
  | ["timestr", a, p, sep] =>
    match parseSecs? a, p.toNat?, parseStr? sep with
    | some x, some prec, some sp => (s, strReply (timestr x sp.toList prec))
    | _, _, _ => (s, "bad-op")
  | ["approx", a, sep] =>
    match parseSecs? a, parseStr? sep with
    | some x, some sp => (s, strReply (timestrApprox x sp.toList))
    | _, _ => (s, "bad-op")
  | _ => (s, "bad-op")

end Edzed.TimeUnits
