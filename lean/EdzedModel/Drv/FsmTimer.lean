-- driver-prefix: fsmtimer
/- line-protocol glue for the timed-FSM model (parsing / printing only) -/
import EdzedModel.FsmTimer

namespace Edzed.FsmTimer

structure DState where
  cfg : Cfg := { tbl := default, initState := "" }
  st : St := {}

instance : Inhabited DState := ⟨{}⟩

def field (s : String) (sep : String) : List String :=
  if s == "-" || s == "" then [] else s.splitOn sep

def parseDur (s : String) : Option Dur :=
  if s == "-" then some .none
  else if s == "inf" then some .inf
  else if s == "bad" then some .bad
  else Dur.us <$> s.toInt?

def parseTEvent (s : String) : Option TEvent :=
  match s.splitOn "." with
  | ["E", n] => some (.ev n)
  | ["G", q] => some (.goto q)
  | _ => none

def parseOptVal (s : String) : Option (Option Val) :=
  if s == "-" then some none else some <$> Val.parse s

def parseTrans (s : String) : Option (String × Option String × Option String) :=
  match s.splitOn ":" with
  | [e, f, t] => some (e, (if f == "*" then none else some f), (if t == "-" then none else some t))
  | _ => none

def parseTimed (s : String) : Option (String × TEvent × Dur) :=
  match s.splitOn ":" with
  | [q, e, d] => do pure (q, ← parseTEvent e, ← parseDur d)
  | _ => none

def parseTDur (s : String) : Option (String × Dur) :=
  match s.splitOn ":" with
  | [q, d] => do pure (q, ← parseDur d)
  | _ => none

def parseCond (s : String) : Option (String × Cond) :=
  match s.splitOn ":" with
  | [e, "true"] => some (e, .const true)
  | [e, "false"] => some (e, .const false)
  | [e, "gate"] => some (e, .gate)
  | [e, "store"] => some (e, .store)
  | [e, "ne", q] => some (e, .stateNe q)
  | _ => none

def parseKV (key : String) (s : String) : Option String :=
  match s.splitOn "=" with
  | [k, v] => if k == key then some v else none
  | _ => none

def tevStr : TEvent → String
  | .ev n => "E." ++ n
  | .goto q => "G." ++ q

def errStr : ErrKind → String
  | .circuitError => "CircuitError"
  | .valueError => "ValueError"
  | .keyError => "KeyError"
  | .unknownEvent => "UnknownEvent"
  | .assertion => "AssertionError"
  | .invalidState => "InvalidState"
  | .typeError => "TypeError"
  | .fuel => "Fuel"

def resStr : Res → String
  | .ret true => "ret1"
  | .ret false => "ret0"
  | .unknown => "unknown"
  | .err k => "err:" ++ errStr k
  | .aborted => "aborted"

def entryStr : Entry → String
  | .exit q _ => "exit." ++ q
  | .onExit q => "onexit." ++ q
  | .cancel id => s!"cancel.{id}"
  | .enter q _ => "enter." ++ q
  | .arm h => s!"arm.{h.id}.{h.when}.{tevStr h.ev}"
  | .out v => "out." ++ v.render
  | .onEnter q => "onenter." ++ q
  | .notrans e q => s!"notrans.{e}.{q}"
  | .fire h _ _ => s!"fire.{h.id}.{tevStr h.ev}"

def logStr (l : List (Nat × Entry)) : String :=
  ";".intercalate (l.map fun (t, e) => s!"{t}:{entryStr e}")

def snapStr (s : St) : String :=
  let st := match s.state with | some q => q | none => "u"
  let inp := match s.input with | some v => v.render | none => "-"
  let tm := match getState s with
    | none => "!"
    | some (_, none) => "-"
    | some (_, some w) => toString w
  let lv := ",".intercalate ((live s).map fun h => s!"{h.id}@{h.when}")
  let fl := match s.failed with | some k => errStr k | none => "-"
  s!"now={s.now} st={st} out={s.out.render} in={inp} tm={tm} live=[{lv}] failed={fl}"

def reply (old new : St) (r : Res) : String :=
  resStr r ++ " | " ++ logStr (new.log.drop old.log.length) ++ " | " ++ snapStr new

def doStep (s : DState) (op : Op) : DState × String :=
  let (st', r) := step s.cfg s.st op
  ({ s with st := st' }, reply s.st st' r)

def handle (s : DState) : List String → DState × String
  | ["reset", "timer", tOn, tOff, restartable, init] =>
    match parseDur tOn, parseDur tOff with
    | some a, some b =>
      if restartable != "b0" && restartable != "b1" then (s, "bad-op") else
      let c := timerCfg a b (restartable == "b1") (if init == "-" then Gen.timerDefault else init)
      ({ cfg := c, st := {} }, "ok")
    | _, _ => (s, "bad-op")
  | ["reset", "timerkw", tPeriod, tOn, tOff, restartable, init] =>
    -- the constructor with its keyword arguments as given (`~` = not given)
    let arg (x : String) : Option (Option Dur) := if x == "~" then some none else (parseDur x).map some
    match arg tPeriod, arg tOn, arg tOff with
    | some p, some a, some b =>
      if restartable != "b0" && restartable != "b1" then (s, "bad-op") else
      match timerNew { tPeriod := p, tOn := a, tOff := b } (restartable == "b1")
          (if init == "-" then Gen.timerDefault else init) with
      | .ok c => ({ cfg := c, st := {} }, "ok")
      | .error k => (s, "err " ++ errStr k)
    | _, _, _ => (s, "bad-op")
  | ["reset", "iexp", duration, expired, initdef] =>
    match parseDur duration, Val.parse expired, parseOptVal initdef with
    | some d, some e, some i => ({ cfg := inputExpCfg d e i, st := {} }, "ok")
    | _, _, _ => (s, "bad-op")
  | ["reset", "gen", states, events, trans, timed, tdur, conds, enter, init] =>
    let r : Option Cfg := do
      let states ← parseKV "states" states
      let events ← parseKV "events" events
      let trans ← (field (← parseKV "trans" trans) ",").mapM parseTrans
      let timed ← (field (← parseKV "timed" timed) ",").mapM parseTimed
      let tdur ← (field (← parseKV "tdur" tdur) ",").mapM parseTDur
      let conds ← (field (← parseKV "conds" conds) ",").mapM parseCond
      let enter ← (field (← parseKV "enter" enter) ",").mapM parseTimed
      let init ← parseKV "init" init
      let sts := field states ","
      pure { tbl := { states := sts, events := field events ",", trans := trans, timed := timed,
                      chainLimit := 3 * sts.length }
             tDur := tdur, conds := conds, enterSend := enter, outFn := .state, initState := init }
    match r with
    | some c => ({ cfg := c, st := {} }, "ok")
    | none => (s, "bad-op")
  | ["init"] => doStep s .init
  | ["restore", q, exp, sd, mode] =>
    -- `_restore_state((q, exp, sdata))`; exp `-` = None; mode n = regular calc_output, r = it raises, u = UNDEF
    let e : Option (Option Nat) := if exp == "-" then some none else exp.toNat?.map some
    let m : Option CalcMode := if mode == "n" then some .normal else if mode == "r" then some .raises
      else if mode == "u" then some .undef else none
    match e, parseOptVal sd, m with
    | some e, some sd, some m => doStep s (.restore q e sd m)
    | _, _, _ => (s, "bad-op")
  | ["stop"] => doStep s .stop
  | ["adv", t] =>
    match t.toNat? with
    | some t => doStep s (.advance t)
    | none => (s, "bad-op")
  | ["gate", b] =>
    if b == "b1" then doStep s (.gate true)
    else if b == "b0" then doStep s (.gate false)
    else (s, "bad-op")
  | ["ev", t, pl, e, dur, value] =>
    match t.toNat?, parseTEvent e, parseDur dur, parseOptVal value with
    | some t, some e, some d, some v =>
      if pl == "B" then doStep s (.ev t .before e { dur := d, value := v })
      else if pl == "A" then doStep s (.ev t .after e { dur := d, value := v })
      else (s, "bad-op")
    | _, _, _, _ => (s, "bad-op")
  | _ => (s, "bad-op")

end Edzed.FsmTimer
