-- driver-prefix: lifecycle
/- line-protocol glue for the life-cycle model (parsing / printing only) -/
import EdzedModel.Lifecycle

namespace Edzed.Lifecycle

structure DState where
  cfg : Cfg := {}
  res : Option Result := none
  deriving Inhabited

def parseKind : String → Option Kind
  | "sync" => some .sync | "async" => some .async | "ainit" => some .ainit | "aplain" => some .aplain | "cblock" => some .cblock
  | "timer" => some .timer | "outf" => some .outf | "outa" => some .outa | "ctrl" => some .ctrl
  | _ => none

def parseCause : String → Option CauseKind
  | "shutdown" => some .shutdown | "abort" => some .abort
  | "ctrlShutdown" => some .ctrlShutdown | "ctrlAbort" => some .ctrlAbort
  | "sigterm" => some .sigterm | "supportEnd" => some .supportEnd
  | "supportFail" => some .supportFail | "handlerErr" => some .handlerErr
  | "innerShutdown" => some .innerShutdown | "innerAbort" => some .innerAbort
  | _ => none

def parseWaiter (s : String) : Option Waiter :=
  match s.toList with
  | ['-'] => some .none
  | ['t'] => some .task
  | ['s'] => some .support
  | 'c' :: r => Waiter.cancelled <$> (String.ofList r).toNat?
  | _ => none

def parseSFault : String → Option SFault
  | "n" => some .none | "w" => some .write | "p" => some .writePop | _ => none

def parseBool : String → Option Bool
  | "0" => some false | "1" => some true | _ => none

def parseOptNat (s : String) : Option (Option Nat) :=
  if s == "-" then some none else s.toNat?.map some

def parseList (s : String) : Option (List Nat) :=
  if s == "-" then some [] else (s.splitOn ",").mapM String.toNat?

def flagChars : List Char := "SRAGVCHPQLKrsdatmpTX".toList

def parseSecond (s : String) : Option (Option (Second × Nat)) :=
  if s == "-" then some none else
  match s.splitOn ":" with
  | [k, dt] => do
    let k ← (match k with
      | "callerCancel" => some Second.callerCancel | "supportEnd" => some .supportEnd
      | "supportFail" => some .supportFail | "abort" => some .abort | "sigterm" => some .sigterm
      | "shutdown" => some .shutdown | _ => none)
    let dt ← dt.toNat?
    pure (some (k, dt))
  | _ => none

def parseBlk (kind flags mf idur ito cdur sdur sto ons icd : String) : Option Blk := do
  let k ← parseKind kind
  let fl := if flags == "-" then [] else flags.toList
  if !fl.all flagChars.contains then none
  let mf ← parseOptNat mf
  let ons ← parseOptNat ons
  pure { kind := k
         -- a start() fault after super().start() is a start() fault
         fStart := fl.contains 'S' || fl.contains 'L', stopOwnCancel := fl.contains 'K', fRestore := fl.contains 'R', fInitAsync := fl.contains 'A'
         fInitRegular := fl.contains 'G', fInitFromValue := fl.contains 'V', fCalc := fl.contains 'C'
         fHandler := fl.contains 'H', fStop := fl.contains 'P', fStopAsync := fl.contains 'Q'
         mainFailAt := mf
         persistent := fl.contains 'p' || fl.contains 'r', restored := fl.contains 'r', savedTimed := fl.contains 'T', fRestoreCalc := fl.contains 'X', selfInit := fl.contains 's', hasInitdef := fl.contains 'd'
         hasInitAsync := fl.contains 'a', stopData := fl.contains 't', armed := fl.contains 'm'
         initDur := ← idur.toNat?, initTimeout := ← ito.toNat?, initCancelDur := ← icd.toNat?, cancelDur := ← cdur.toNat?
         stopDur := ← sdur.toNat?, stopTimeout := ← sto.toNat?, onSuccess := ons }

def Res.render : Res → String
  -- the task sees a CancelledError in both cases
  | .ok => "ok" | .err => "err" | .timeout => "cancelled" | .cancelled => "cancelled" | .pending => "pending"

def Ev.render : Ev → String
  | .start k => s!"start:{k}" | .started k => s!"started:{k}" | .stop k => s!"stop:{k}"
  | .sab k => s!"sab:{k}" | .sae k r => s!"sae:{k}:{r.render}"
  | .out k sd => s!"out:{k}:{if sd then 1 else 0}"

def Task.render : Task → String
  | .init k => s!"init:{k}" | .main k => s!"main:{k}" | .ctrl k => s!"ctrl:{k}"
  | .stopa k => s!"stopa:{k}" | .helper => "helper"

def Phase.render : Phase → String
  | .notStarted => "notStarted" | .startFailed => "startFailed" | .afterStart => "afterStart"
  | .asyncInit => "asyncInit" | .initFailed => "initFailed" | .evalFailed => "evalFailed"
  | .running => "running"

def joinOr (l : List String) : String := if l.isEmpty then "-" else ",".intercalate l

def sortStrings (l : List String) : List String := l.mergeSort (fun a b => a ≤ b)

def handle (s : DState) : List String → DState × String
  | ["reset", ck, before, time, late, wi, ra, sf, tg, wt, sec] =>
    match parseCause ck, parseBool before, time.toNat?, parseBool late, parseBool wi, parseBool ra, parseSFault sf,
      parseOptNat tg, parseWaiter wt, parseSecond sec with
    | some ck, some b, some t, some l, some w, some ra, some sf, some tg, some wt, some sec =>
      ({ cfg := { cause := { kind := ck, before := b, time := t, late := l, raiseAfter := ra, target := tg, second := sec },
                  waitInit := w, storageFault := sf, waiter := wt },
         res := none }, "ok")
    | _, _, _, _, _, _, _, _, _, _ => (s, "bad-op")
  | ["helperat", t] => match s.res, t.toNat? with
    | some r, some t => (s, if helperAt r.helperSpan t then "alive" else "gone")
    | _, _ => (s, "bad-op")
  | ["blk", kind, flags, mf, idur, ito, cdur, sdur, sto, ons, icd] =>
    match parseBlk kind flags mf idur ito cdur sdur sto ons icd with
    | some b => ({ s with cfg := { s.cfg with blocks := s.cfg.blocks ++ [b] } },
                 s!"ok {s.cfg.blocks.length}")
    | none => (s, "bad-op")
  | ["run", oa, os] =>
    match parseList oa, parseList os with
    | some oa, some os =>
      let c := { s.cfg with oa := oa, os := os }
      match runForever c with
      | some r => ({ cfg := c, res := some r }, "ok")
      | none => ({ cfg := c, res := none }, "err IllegalChoice")
    | _, _ => (s, "bad-op")
  | ["trace"] => match s.res with
    | some r => (s, joinOr (r.trace.map Ev.render))
    | none => (s, "bad-op")
  | ["initres"] => match s.res with
    | some r => (s, joinOr (sortStrings (r.initRes.map fun e => s!"{e.k}:{e.time}:{e.res.render}")))
    | none => (s, "bad-op")
  | ["storage"] => match s.res with
    | some r => (s, joinOr (sortStrings (r.storage.eraseDups.map fun k => s!"{k}")))
    | none => (s, "bad-op")
  | ["left"] => match s.res with
    | some r => (s, joinOr (sortStrings (r.tasks.map Task.render ++ r.timers.map fun k => s!"timer:{k}")))
    | none => (s, "bad-op")
  | ["end"] => match s.res with
    | some r => (s, s!"end={r.endTime} err={match r.error with | some .cancelled => "cancelled" | some .failure => "failure" | none => "none"}")
    | none => (s, "bad-op")
  | ["phase"] => match s.res with
    | some r => (s, s!"phase={r.phase.render} startok={if r.startOk then 1 else 0} T={r.termTime}")
    | none => (s, "bad-op")
  | ["after"] => match s.res with
    | some r => (s, s!"restart={if (restart r).isSome then "ok" else "InvalidState"} " ++
        s!"modify={if (modify r).isSome then "ok" else "InvalidState"}")
    | none => (s, "bad-op")
  | _ => (s, "bad-op")

end Edzed.Lifecycle
