-- driver-prefix: sim Sim
/- line-protocol glue for the simulator model (parsing / printing only) -/
import EdzedModel.Simulate
import EdzedModel.CBlocks

namespace Edzed.Sim

structure DState where
  circ : Circuit := default
  st : St Val := { outC := fun _ => .undef, outS := fun _ => .undef, E := fun _ => false, Q := [] }
  ns : Nat := 0

instance : Inhabited DState := ⟨{}⟩

def parseSrc (s : String) : Option Src :=
  match s.toList with
  | 'c' :: r => Src.c <$> (String.ofList r).toNat?
  | 's' :: r => Src.s <$> (String.ofList r).toNat?
  | 'k' :: '~' :: r => Src.k <$> Val.parse (String.ofList r)
  | _ => none

def splitField (s : String) (sep : String) : List String :=
  if s == "-" || s == "" then [] else s.splitOn sep

def parseFn (s : String) : Option Fn :=
  match s.splitOn "~" with
  | ["not"] => some .not
  | ["and"] => some .and
  | ["or"] => some .or
  | ["xor"] => some .xor
  | ["ovr", v] => Fn.override <$> Val.parse v
  | ["cmp", lo, hi] => do pure (.compare (← ratParse lo) (← ratParse hi))
  | ["f", f, u] => do
    let sc ← match f with
      | "cnt" => some Script.cnt
      | "sel" => some Script.sel
      | "glen" => some Script.glen
      | "big" => some Script.big
      | _ => none
    pure (.func sc (u == "1"))
  | _ => none

def parseNamed (s : String) : Option (String × Src) :=
  match s.splitOn "=" with
  | [k, v] => (fun x => (k, x)) <$> parseSrc v
  | _ => none

def parseGroup (s : String) : Option (String × List Src) :=
  match s.splitOn "=" with
  | [k, v] => (fun x => (k, x)) <$> (splitField v "|").mapM parseSrc
  | _ => none

def parseEvent (s : String) : Option (Nat × EvKind) :=
  match s.splitOn "." with
  | [i, "put"] => (fun n => (n, EvKind.put)) <$> i.toNat?
  | [i, "inc"] => (fun n => (n, EvKind.inc)) <$> i.toNat?
  | _ => none

def parseCBlk (s : String) : Option CBlk :=
  match s.splitOn ":" with
  | ["C", fn, pos, named, groups, events] => do
    pure { fn := ← parseFn fn,
           pos := ← (splitField pos "+").mapM parseSrc,
           named := ← (splitField named "+").mapM parseNamed,
           groups := ← (splitField groups "+").mapM parseGroup,
           events := ← (splitField events "+").mapM parseEvent }
  | _ => none

def parseSBlk (s : String) : Option (SKind × Val) :=
  match s.splitOn ":" with
  | ["S", "i", v] => (fun x => (SKind.input, x)) <$> Val.parse v
  | ["S", "c", v] => (fun x => (SKind.counter, x)) <$> Val.parse v
  | _ => none

def listFn (l : List Val) : Nat → Val := fun i => l.getD i .undef

def outsStr (d : DState) : String :=
  "C=" ++ ";".intercalate ((List.range d.circ.cblocks.length).map fun b => (d.st.outC b).render)
  ++ " S=" ++ ";".intercalate ((List.range d.ns).map fun i => (d.st.outS i).render)

def fnRender : Fn → String
  | .not => "not" | .and => "and" | .or => "or" | .xor => "xor"
  | .override v => "ovr~" ++ v.render
  | .compare lo hi => "cmp~" ++ ratRender lo ++ "~" ++ ratRender hi
  | .func f u => "f~" ++ (match f with | .cnt => "cnt" | .sel => "sel" | .glen => "glen" | .big => "big") ++ "~" ++ (if u then "1" else "0")

/-- the call a block's function receives (FuncBlock and its subclasses And / Or / Xor, which pass
    `unpack=False`), and what the scripted function makes of it -/
def argsStr (d : DState) (j : Nat) : String :=
  let b := d.circ.blk j
  match b.fn with
  | .func f u =>
    let c := CBlocks.funcCall b u d.st.outC d.st.outS
    "args " ++ c.render ++ " val=" ++ (CBlocks.Script.apply f u c).render
  | .and | .or | .xor => "args " ++ (CBlocks.funcCall b false d.st.outC d.st.outS).render
  | _ => "err NotFuncBlock"

def handle (d : DState) : List String → DState × String
  | "reset" :: nb :: toks =>
    match (nb.splitOn "=") with
    | ["nblocks", n] =>
      match n.toNat? with
      | none => (d, "bad-op")
      | some n =>
        let ss := toks.filter (·.startsWith "S:")
        let cs := toks.filter (·.startsWith "C:")
        match ss.mapM parseSBlk, cs.mapM parseCBlk with
        | some ss, some cs =>
          if ss.length + cs.length != toks.length then (d, "bad-op") else
          let circ : Circuit := { cblocks := cs, skinds := ss.map (·.1), nblocks := n }
          ({ circ := circ, st := start circ (listFn (ss.map (·.2))), ns := ss.length }, "ok")
        | _, _ => (d, "bad-op")
    | _ => (d, "bad-op")
  | ["eval", j] =>
    match j.toNat? with
    | none => (d, "bad-op")
    | some j =>
      let (s, r) := evalOp d.circ d.st j
      ({ d with st := s },
        match r with
        | .ok ch v => s!"ev {if ch then 1 else 0} {v.render}"
        | .illegalChoice => "err IllegalChoice"
        | .instability => "err Instability")
  | ["over"] =>
    let (s, r) := evalOp d.circ d.st 0
    match r with
    | .instability => ({ d with st := s }, "err Instability")
    | _ => (d, "err NotUnstable")
  | ["idle"] =>
    match idleOp d.circ d.st with
    | some s => let d' := { d with st := s }; (d', "idle " ++ outsStr d')
    | none => (d, "err NotIdle")
  | ["outs"] => (d, outsStr d)
  | ["args", j] =>
    match j.toNat? with
    | some j => (d, argsStr d j)
    | none => (d, "bad-op")
  | ["ctor", "cmp", lo, hi] =>
    match ratParse lo, ratParse hi with
    | some lo, some hi =>
      (d, match CBlocks.mkCompare lo hi with
          | .ok fn => "ok " ++ fnRender fn
          | .error .valueError => "err ValueError")
    | _, _ => (d, "bad-op")
  | ["ctor", "func", f, u] =>
    let sc := match f with
      | "cnt" => some Script.cnt | "sel" => some Script.sel | "glen" => some Script.glen | "big" => some Script.big | _ => none
    let un := match u with
      | "-" => some none | "1" => some (some true) | "0" => some (some false) | _ => none
    match sc, un with
    | some sc, some un => (d, "ok " ++ fnRender (CBlocks.mkFunc sc un))
    | _, _ => (d, "bad-op")
  | ["ctor", "ovr", v] =>
    if v == "-" then (d, "ok " ++ fnRender (CBlocks.mkOverride none)) else
    match Val.parse v with
    | some v => (d, "ok " ++ fnRender (CBlocks.mkOverride (some v)))
    | none => (d, "bad-op")
  | ["ext", i, "put", v] =>
    match i.toNat?, Val.parse v with
    | some i, some v => let s := extOp d.circ d.st i .put v; ({ d with st := s }, "ok " ++ (s.outS i).render)
    | _, _ => (d, "bad-op")
  | ["ext", i, "inc"] =>
    match i.toNat? with
    | some i => let s := extOp d.circ d.st i .inc .undef; ({ d with st := s }, "ok " ++ (s.outS i).render)
    | none => (d, "bad-op")
  | _ => (d, "bad-op")

end Edzed.Sim
