-- driver-prefix: ext ExtEvent
/- line-protocol glue for the external-event model (parsing / printing only) -/
import EdzedModel.ExtEvent
import EdzedModel.BlkCtor
import EdzedModel.Drv.ErrorReg

namespace Edzed.ExtEvent

structure DState where
  life : ErrorReg.St := {}
  world : BlkCtor.World := {}          -- the heap of the constructor scenarios (`w-…` lines)
  deriving Inhabited

/-! ### the constructor scenarios: parsing / printing -/
open BlkCtorPy in
/-- `v<value>` a plain value, `b<hex name>` the block of that name in the current circuit, `e` a new event-like
    object (it has a `send` attribute) -/
def parseTok (w : BlkCtor.World) (t : String) : Option (BlkCtor.World × Arg Nat) :=
  match t.toList with
  | 'v' :: r => (fun v => (w, Arg.val v)) <$> Val.parse (String.ofList r)
  | 'b' :: r => do
    let n ← hexDecode (String.ofList r)
    let c ← w.current
    let b ← BlkCtor.findblock w c n
    pure (w, Arg.obj b)
  | ['e'] =>
    let r := w.alloc { cls := "EventLike", bases := ["EventLike"], members := [("send", .method)] }
    some (r.1, Arg.obj r.2)
  | _ => none

open BlkCtorPy in
def parseArgs (w : BlkCtor.World) (s : String) : Option (BlkCtor.World × List (Arg Nat)) :=
  if s == "-" then some (w, [])
  else (s.splitOn "|").foldl (fun acc t => do
    let (w, l) ← acc
    let (w, a) ← parseTok w t
    pure (w, l ++ [a])) (some (w, []))

open BlkCtorPy in
def parseKw (w : BlkCtor.World) (s : String) : Option (BlkCtor.World × Kw (Arg Nat)) :=
  if s == "-" then some (w, [])
  else (s.splitOn "|").foldl (fun acc t => do
    let (w, l) ← acc
    match t.splitOn "=" with
    | [k, v] =>
      let k ← hexDecode k
      let (w, a) ← parseTok w v
      pure (w, l ++ [(k, a)])
    | _ => none) (some (w, []))

open BlkCtorPy in
def renderArg (w : BlkCtor.World) : Arg Nat → String
  | .val v => "v" ++ v.render
  | .obj o => "o" ++ hexEncode (w.nameOf o)

open BlkCtorPy in
def renderAttr (w : BlkCtor.World) : Option BlkCtor.Attr → String
  | some (.arg a) => renderArg w a
  | some (.str s) => "v" ++ (Val.str s).render
  | some (.bool b) => "v" ++ (Val.bool b).render
  | some (.obj o) => "o" ++ hexEncode (w.nameOf o)
  | some _ => "?"
  | none => "-"

def insertStr (x : String) : List String → List String
  | [] => [x]
  | y :: r => if x < y then x :: y :: r else y :: insertStr x r

def sortStrs (l : List String) : List String := l.foldr insertStr []

def circuitLine (w : BlkCtor.World) : String :=
  match w.current with
  | none => "none"
  | some c =>
    let b := fun (x : Bool) => if x then "1" else "0"
    s!"circ n={(w.heap.filter (·.cls == "Circuit")).length} ready={b (BlkCtor.isReady w c)} fin={b (w.attrTruthy c "_finalized")} err={b (!w.attrIsNone c "_error")} blocks={",".intercalate ((w.blocks c).map fun p => hexEncode p.1)}"

def blockReply (w : BlkCtor.World) (o : Nat) : String :=
  let keys := (w.obj o).attrs.map (·.1)
  let xs := ((w.obj o).attrs.filter fun p => BlkCtor.goodKey' p.1).map fun p => hexEncode p.1 ++ "=" ++ renderAttr w (some p.2)
  s!"ok {hexEncode (w.nameOf o)} attrs={",".intercalate (sortStrs keys)} comment={renderAttr w (w.get? o "comment")} debug={renderAttr w (w.get? o "debug")} initdef={renderAttr w (w.get? o "initdef")} x={",".intercalate (sortStrs xs)}"

def parseDest : String → Option Dest
  | "sblockObj" => some .sblockObj
  | "sblockName" => some .sblockName
  | "cblockObj" => some .cblockObj
  | "cblockName" => some .cblockName
  | "unknownName" => some .unknownName
  | "notABlock" => some .notABlock
  | _ => none

def hexL (s : String) : Option (List Char) :=
  if s == "-" then some [] else String.toList <$> hexDecode s

def nameReply (b : BlockName) : String :=
  let n := b.render
  s!"{if b.accepted then 1 else 0} {hexEncode (String.ofList n)} ext={if pfx.isPrefixOf (internalSource b) then 1 else 0}"

def handle (d : DState) : List String → DState × String
  | ["reset"] => ({}, "ok")
  | "life" :: r =>
    match ErrorReg.parseOp r with
    | some op =>
      let s := (ErrorReg.step d.life op).1
      ({ life := s }, s!"ready={if s.ready then 1 else 0}")
    | none => (d, "bad-op")
  | ["life-settle"] =>
    let s := ErrorReg.settle 64 d.life
    ({ life := s }, s!"ready={if s.ready then 1 else 0}")
  | ["ctor", dest, etype, source] =>
    match parseDest dest, Val.parse etype, Val.parse source with
    | some dd, some e, some s =>
      (d, match ctor dd e s with
          | .ok src => "ok " ++ hexEncode src
          | .typeError => "TypeError"
          | .keyError => "KeyError")
    | _, _, _ => (d, "bad-op")
  | ["send", dsrc, value, data] =>
    match hexDecode dsrc, (if value == "-" then some none else some <$> Val.parse value), Data.parse data with
    | some ds, some v, some dt =>
      (d, match sendIn d.life ds v dt with
          | .invalidState => "InvalidState"
          | .typeError => "TypeError"
          | .delivered x => "delivered " ++ x.render)
    | _, _, _ => (d, "bad-op")
  | ["w-reset"] => ({ d with world := {} }, "ok")
  | ["w-getcircuit"] =>
    let w := (BlkCtor.getCircuit d.world).1
    ({ d with world := w }, circuitLine w)
  | ["w-resetcircuit"] =>
    let w := BlkCtor.resetCircuit d.world
    ({ d with world := w }, circuitLine w)
  | ["w-finalize"] =>
    let r := BlkCtor.getCircuit d.world
    let w := r.1.setAttr r.2 "_finalized" (.arg (.val (.bool true)))
    ({ d with world := w }, circuitLine w)
  | ["w-abort"] =>
    let r := BlkCtor.getCircuit d.world
    let w := (BlkCtor.abort r.1 r.2 "RuntimeError").1
    ({ d with world := w }, circuitLine w)
  | ["w-block", kind, cls, bases, ifv, args, kwargs] =>
    match hexDecode cls, (if bases == "-" then some [] else (bases.splitOn ",").mapM hexDecode),
          parseArgs d.world args with
    | some cls, some bases, some (w, args) =>
      match parseKw w kwargs with
      | some (w, kw) =>
        let member : Option BlkCtor.Member := match ifv with
          | "m" => some .method | "d" => some .dummySync | "a" => some .dummyAsync | "x" => some .data
          | "p" => some .propAttrError | "r" => some .propRuntimeError | _ => none
        let lib := if kind == "s" then ["SBlock", "Block"] else if kind == "c" then ["CBlock", "Block"] else ["Block"]
        let r := w.alloc { cls := cls, bases := cls :: bases ++ lib,
                           members := match member with
                             | some m => [("init_from_value", m)]
                             | none => if kind == "s" then [("init_from_value", .dummySync)] else [] }
        let res := if kind == "s" then BlkCtor.sblockInitCall r.1 r.2 args kw
                   else if kind == "c" then BlkCtor.cblockInitCall r.1 r.2 args kw
                   else BlkCtor.blockInitCall r.1 r.2 args kw
        ({ d with world := res.1 }, match res.2 with
          | .ok () => blockReply res.1 r.2
          | .error e => e)
      | none => (d, "bad-op")
    | _, _, _ => (d, "bad-op")
  | ["w-ext", args, kwargs] =>
    match parseArgs d.world args with
    | some (w, args) =>
      match parseKw w kwargs with
      | some (w, kw) =>
        let r := w.alloc { cls := "ExtEvent", bases := ["ExtEvent"] }
        let res := BlkCtor.extInitCall r.1 r.2 args kw
        ({ d with world := res.1 }, match res.2 with
          | .ok () => s!"ok {renderAttr res.1 (res.1.get? r.2 "_source")} dest={renderAttr res.1 (res.1.get? r.2 "_dest")} etype={renderAttr res.1 (res.1.get? r.2 "_etype")}"
          | .error e => e)
      | none => (d, "bad-op")
    | none => (d, "bad-op")
  | ["w-const", tok] =>
    match parseTok d.world tok with
    | some (w, a) =>
      let res := BlkCtor.constCall w "Const" a
      ({ d with world := res.1 }, match res.2 with
        | .ok o => s!"ok same={if o < w.heap.length then 1 else 0} out={renderAttr res.1 (res.1.get? o "_output")}"
        | .error e => e)
    | none => (d, "bad-op")
  | ["w-iscurrent", task, cur] =>
    let r := BlkCtor.getCircuit d.world
    let w := match task.toNat? with
      | some n => r.1.setAttr r.2 "_simtask" (.ext (.task n))
      | none => r.1
    let w := { w with curTask := if cur == "x" then none else some cur.toNat? }
    ({ d with world := w }, if BlkCtor.isCurrentTask w r.2 then "1" else "0")
  | ["name", "user", n] => match hexL n with
    | some n => (d, nameReply (.user n))
    | none => (d, "bad-op")
  | ["name", "auto", c, s] => match hexL c, hexL s with
    | some c, some s => (d, nameReply (.auto c s))
    | _, _ => (d, "bad-op")
  | ["name", "ctrl"] => (d, nameReply .ctrl)
  | ["name", "notOf", n] => match hexL n with
    | some n => (d, nameReply (.notOf n))
    | none => (d, "bad-op")
  | ["name", "cron", u] => (d, nameReply (.cron (u == "1")))
  | _ => (d, "bad-op")

end Edzed.ExtEvent
