-- driver-prefix: ext ExtEvent
/- line-protocol glue for the external-event model (parsing / printing only) -/
import EdzedModel.ExtEvent
import EdzedModel.Drv.ErrorReg

namespace Edzed.ExtEvent

structure DState where
  life : ErrorReg.St := {}
  deriving Inhabited

def parseDest : String → Option Dest
  | "sblockObj" => some .sblockObj
  | "sblockName" => some .sblockName
  | "cblockObj" => some .cblockObj
  | "cblockName" => some .cblockName
  | "unknownName" => some .unknownName
  | "notABlock" => some .notABlock
  | _ => none

def hexL (s : String) : Option (List Char) :=
  if s == "-" then some [] else String.toList <$> hexDecode s

def nameReply (b : BlockName) : String :=
  let n := b.render
  s!"{if b.accepted then 1 else 0} {hexEncode (String.ofList n)} ext={if pfx.isPrefixOf (internalSource b) then 1 else 0}"

def handle (d : DState) : List String → DState × String
  | ["reset"] => ({}, "ok")
  | "life" :: r =>
    match ErrorReg.parseOp r with
    | some op =>
      let s := (ErrorReg.step d.life op).1
      ({ life := s }, s!"ready={if s.ready then 1 else 0}")
    | none => (d, "bad-op")
  | ["life-settle"] =>
    let s := ErrorReg.settle 64 d.life
    ({ life := s }, s!"ready={if s.ready then 1 else 0}")
  | ["ctor", dest, etype, source] =>
    match parseDest dest, Val.parse etype, Val.parse source with
    | some dd, some e, some s =>
      (d, match ctor dd e s with
          | .ok src => "ok " ++ hexEncode src
          | .typeError => "TypeError"
          | .keyError => "KeyError")
    | _, _, _ => (d, "bad-op")
  | ["send", dsrc, value, data] =>
    match hexDecode dsrc, (if value == "-" then some none else some <$> Val.parse value), Data.parse data with
    | some ds, some v, some dt =>
      (d, match sendIn d.life ds v dt with
          | .invalidState => "InvalidState"
          | .typeError => "TypeError"
          | .delivered x => "delivered " ++ x.render)
    | _, _, _ => (d, "bad-op")
  | ["name", "user", n] => match hexL n with
    | some n => (d, nameReply (.user n))
    | none => (d, "bad-op")
  | ["name", "auto", c, s] => match hexL c, hexL s with
    | some c, some s => (d, nameReply (.auto c s))
    | _, _ => (d, "bad-op")
  | ["name", "ctrl"] => (d, nameReply .ctrl)
  | ["name", "notOf", n] => match hexL n with
    | some n => (d, nameReply (.notOf n))
    | none => (d, "bad-op")
  | ["name", "cron", u] => (d, nameReply (.cron (u == "1")))
  | _ => (d, "bad-op")

end Edzed.ExtEvent
