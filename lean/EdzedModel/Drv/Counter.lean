-- driver-prefix: counter
import EdzedModel.Counter

namespace Edzed.Counter

structure DState where
  cfg : Cfg := ⟨none, ⟨0, .int⟩⟩
  out : Num := ⟨0, .int⟩
  deriving Inhabited

def parseNum? (s : String) : Option (Option Num) :=
  if s == "-" || s == "n" then some none
  else match Val.parse s with
    | some v => (Num.ofVal? v).map some
    | none => none

def resStr : Res → String
  | .ret v => "ret " ++ v.toVal.render
  | .paramError => "err ParamError"

def handle (s : DState) : List String → DState × String
  | ["reset", m, i, r] =>
    match parseNum? m, parseNum? i, parseNum? r with
    | some m, some (some i), some r =>
      let c : Cfg := ⟨m, i⟩
      if c.valid then
        let o := init c r
        ({ cfg := c, out := o }, "ok " ++ o.toVal.render)
      else (s, "err ValueError")
    | _, _, _ => (s, "bad-op")
  | ["inc", a] => match parseNum? a with
    | some a => let (o, r) := step s.cfg s.out (.inc a); ({ s with out := o }, resStr r)
    | none => (s, "bad-op")
  | ["dec", a] => match parseNum? a with
    | some a => let (o, r) := step s.cfg s.out (.dec a); ({ s with out := o }, resStr r)
    | none => (s, "bad-op")
  | ["put", a] => match parseNum? a with
    | some a => let (o, r) := step s.cfg s.out (.put a); ({ s with out := o }, resStr r)
    | none => (s, "bad-op")
  | ["reset_ev"] => let (o, r) := step s.cfg s.out .reset; ({ s with out := o }, resStr r)
  | ["out"] => (s, s.out.toVal.render)
  | _ => (s, "bad-op")

end Edzed.Counter
