/-
Model of `edzed.Counter` (edzed/blocklib/sblocks1.py, `_setmod` and the event handlers).

State: the output (= the internal state).  Configuration: optional modulo, initdef.
Numbers are exact rationals with their Python kind; `%` is Python's floored modulo.
-/
import EdzedModel.Basic.Val

namespace Edzed.Counter

structure Num where
  q : Rat
  k : Kind
  deriving DecidableEq, Repr, Inhabited

def Num.toVal (n : Num) : Val := .atom (.num n.q n.k)

def Num.ofVal? : Val → Option Num
  | .atom (.num q k) => some ⟨q, k⟩
  | _ => none

/-- Python's `a % m` (floored), `m ≠ 0` -/
def fmod (a m : Rat) : Rat := a - m * ((a / m).floor : Int)

def Num.add (a b : Num) : Num := ⟨a.q + b.q, a.k.join b.k⟩
def Num.sub (a b : Num) : Num := ⟨a.q - b.q, a.k.join b.k⟩
def Num.mod (a m : Num) : Num := ⟨fmod a.q m.q, a.k.join m.k⟩

structure Cfg where
  mod : Option Num
  initdef : Num
  deriving Repr, Inhabited

/-- `Counter.__init__` refuses `modulo == 0` -/
def Cfg.valid (c : Cfg) : Bool :=
  match c.mod with
  | none => true
  | some m => m.q != 0

/-- `_setmod`: the value stored and returned -/
def reduce (c : Cfg) (v : Num) : Num :=
  match c.mod with
  | none => v
  | some m => v.mod m

inductive Op where
  | inc (amount : Option Num)     -- `amount` defaults to 1
  | dec (amount : Option Num)
  | put (value : Option Num)      -- a missing value is a parameter error
  | reset
  deriving Repr, Inhabited

inductive Res where
  | ret (v : Num)                 -- the handler's return value
  | paramError                    -- TypeError raised by the call itself: reported, nothing else
  deriving Repr, Inhabited

def one : Num := ⟨1, .int⟩

/-- `set_output`: a value that compares equal to the current output leaves the stored
    object (and its Python kind) untouched -/
def store (out v : Num) : Num := if out.q == v.q then out else v

/-- one event on an initialised counter with output `out`:
    new stored output and the handler's result (`_setmod` returns the computed value) -/
def step (c : Cfg) (out : Num) : Op → Num × Res
  | .inc a => let v := reduce c (out.add (a.getD one)); (store out v, .ret v)
  | .dec a => let v := reduce c (out.sub (a.getD one)); (store out v, .ret v)
  | .put (some x) => let v := reduce c x; (store out v, .ret v)
  | .put none => (out, .paramError)
  | .reset => let v := reduce c c.initdef; (store out v, .ret v)

/-- initialisation: restored persistent value (if any), else initdef; both go through `_setmod` -/
def init (c : Cfg) (restored : Option Num) : Num :=
  reduce c (restored.getD c.initdef)

def run (c : Cfg) (out : Num) (ops : List Op) : Num :=
  ops.foldl (fun o op => (step c o op).1) out

/-! reference: the unreduced accumulator -/
def specStep (c : Cfg) (acc : Rat) : Op → Rat
  | .inc a => acc + (a.getD one).q
  | .dec a => acc - (a.getD one).q
  | .put (some x) => x.q
  | .put none => acc
  | .reset => c.initdef.q

def spec (c : Cfg) (acc : Rat) (ops : List Op) : Rat :=
  ops.foldl (specStep c) acc

end Edzed.Counter
