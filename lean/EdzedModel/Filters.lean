/-
Model of the event filters (edzed/blocklib/filters.py) and of the filter loop of
`Event.send` (edzed/block.py).

* a filter is called with the event data (one dict) and returns anything:
  a `MutableMapping` replaces the data, any other true value keeps the (possibly in-place
  modified) data, a false value stops the delivery (`send` returns False), an exception
  propagates out of `send`;
* `Edge`, `not_from_undef`, `Delta` (remembers the last PASSED value), `IfOutput`,
  `IfNotIitialized` (documented as NotIfInitialized), `DataEdit` with all its operations;
* user code (a filter function, the function given to `DataEdit.modify`) is an arbitrary
  Lean function, the theorems are parametric in it.

Values: `Edzed.Val`; event data: `Edzed.Data` (association list, looked up with `get?`).
-/
import EdzedModel.Basic.Val

namespace Edzed.Filters

/-- exceptions a filter can raise in this model -/
inductive Err where
  | keyError | typeError | valueError
  deriving DecidableEq, Repr, Inhabited

def Err.name : Err → String
  | .keyError => "KeyError"
  | .typeError => "TypeError"
  | .valueError => "ValueError"

/-- what filters see of the circuit: block name → current output
    (`SBlock.is_initialized()` is `output is not UNDEF`) -/
abbrev Env := String → Val

def Env.initialized (env : Env) (name : String) : Bool := !(env name).isUndef

/-- the return value of a filter call -/
inductive FRes where
  | mapping (d : Data)        -- a MutableMapping with string keys
  | other (v : Val)           -- anything else: its truth value decides
  | badKey                    -- a MutableMapping with a non-string key
  | raise (e : Err)
  deriving DecidableEq, Inhabited

/-! ### dictionary operations -/

/-- `{**d, **kw}` (kw: keyword arguments, keys unique): items of `kw` override -/
def update (d kw : Data) : Data := kw.foldr (fun p acc => acc.set p.1 p.2) d

/-- `for key in keys: d.pop(key, None)` -/
def eraseAll (d : Data) (keys : List String) : Data := keys.foldl Data.erase d

/-- delete all but the listed keys -/
def keepOnly (d : Data) (keys : List String) : Data := d.filter (fun p => keys.contains p.1)

/-! ### Edge -/

/-- constructor arguments of `Edge` with the defaults of its signature -/
structure EdgeArgs where
  rise : Bool := false
  fall : Bool := false
  uRise : Option Bool := none
  uFall : Bool := false
  deriving DecidableEq, Repr, Inhabited

/-- what `Edge.__init__` stores -/
structure EdgeFlags where
  rise : Bool
  fall : Bool
  urise : Bool
  ufall : Bool
  deriving DecidableEq, Repr, Inhabited

def EdgeArgs.flags (a : EdgeArgs) : EdgeFlags :=
  { rise := a.rise, fall := a.fall,
    urise := (match a.uRise with | some b => b | none => a.rise),
    ufall := a.uFall }

/-- `Edge.__call__` on the two values -/
def edgePass (fl : EdgeFlags) (previous value : Val) : Bool :=
  if previous.isUndef then
    (if value.truthy then fl.urise else fl.ufall)
  else
    (if value.truthy then (!previous.truthy && fl.rise) else (previous.truthy && fl.fall))

def edgeCall (fl : EdgeFlags) (d : Data) : FRes :=
  match d.get? "value" with
  | none => .raise .keyError
  | some value =>
    match d.get? "previous" with
    | none => .raise .keyError
    | some previous => .other (.bool (edgePass fl previous value))

/-! ### not_from_undef -/

/-- `data.get('previous', UNDEF) is not UNDEF` -/
def notFromUndefPass (d : Data) : Bool :=
  match d.get? "previous" with
  | none => false
  | some p => !p.isUndef

/-! ### Delta -/

def numOf? : Val → Option Rat
  | .atom (.num q _) => some q
  | _ => none

def absQ (q : Rat) : Rat := if q < 0 then -q else q

/-- The numbers Delta computes with: Python's ints, bools and FINITE floats are exact rationals; the floats
    +inf, -inf and NaN are separate values with IEEE / Python rules: a difference involving NaN, and
    inf - inf, is NaN; EVERY ordering comparison with NaN is false (so `a >= b` and `not (a < b)` are no
    longer the same test). -/
inductive XNum where
  | fin (q : Rat)
  | pinf
  | ninf
  | nan
  deriving DecidableEq, Repr, Inhabited

namespace XNum

def neg : XNum → XNum
  | .fin q => .fin (-q)
  | .pinf => .ninf
  | .ninf => .pinf
  | .nan => .nan

/-- `a - b` -/
def sub : XNum → XNum → XNum
  | .nan, _ => .nan
  | _, .nan => .nan
  | .fin a, .fin b => .fin (a - b)
  | .fin _, .pinf => .ninf
  | .fin _, .ninf => .pinf
  | .pinf, .pinf => .nan
  | .pinf, _ => .pinf
  | .ninf, .ninf => .nan
  | .ninf, _ => .ninf

/-- `abs(a)` -/
def abs : XNum → XNum
  | .fin q => .fin (absQ q)
  | .pinf => .pinf
  | .ninf => .pinf
  | .nan => .nan

/-- `a <= b` -/
def le : XNum → XNum → Bool
  | .nan, _ => false
  | _, .nan => false
  | .ninf, _ => true
  | _, .pinf => true
  | .fin a, .fin b => decide (a ≤ b)
  | _, _ => false

/-- `a < b` -/
def lt : XNum → XNum → Bool
  | .nan, _ => false
  | _, .nan => false
  | .pinf, _ => false
  | _, .ninf => false
  | .fin a, .fin b => decide (a < b)
  | _, _ => true

end XNum

/-- the carriers of the non-finite floats in the value domain (reserved strings no generator produces,
    the convention of `Output.nanVal`) -/
def nanVal : Val := .atom (.str "\x00NaN")
def pinfVal : Val := .atom (.str "\x00+inf")
def ninfVal : Val := .atom (.str "\x00-inf")

/-- the number a Python value is, if it is one -/
def xnumOf? : Val → Option XNum
  | .atom (.num q _) => some (.fin q)
  | .atom (.str s) =>
    if s = "\x00NaN" then some .nan else if s = "\x00+inf" then some .pinf
    else if s = "\x00-inf" then some .ninf else none
  | _ => none

def XNum.toVal : XNum → Val
  | .fin q => .atom (.num q .float)
  | .pinf => pinfVal
  | .ninf => ninfVal
  | .nan => nanVal

/-- `Delta.__call__`: new `_last` and the result.
    `abs(self._last - value) >= self._delta` needs two numbers (TypeError otherwise, `_last` unchanged);
    the test is FALSE when the difference is NaN (a NaN value, inf - inf): such a value is rejected and
    `_last` keeps the last value that passed. -/
def deltaCall (δ : XNum) (last : Val) (d : Data) : Val × FRes :=
  match d.get? "value" with
  | none => (last, .raise .keyError)
  | some value =>
    if last.isUndef then (value, .other (.bool true))
    else
      match xnumOf? last, xnumOf? value with
      | some l, some v =>
        if XNum.le δ (XNum.abs (XNum.sub l v)) then (value, .other (.bool true))
        else (last, .other (.bool false))
      | _, _ => (last, .raise .typeError)

/-! ### DataEdit -/

/-- what the function given to `DataEdit.modify` did -/
inductive ModRes where
  | value (v : Val)
  | delete                    -- DataEdit.DELETE
  | reject                    -- DataEdit.REJECT
  | raise (e : Err)
  deriving Inhabited

inductive EditOp where
  | add (kw : Data)
  | addOutput (key : String) (source : String)
  | copy (src dst : String)
  | delete (keys : List String)
  | modify (key : String) (f : Val → ModRes)
  | permit (keys : List String)
  | rename (src dst : String)
  | setdefault (kw : Data)

/-- the name of the operation in the code -/
def EditOp.pyName : EditOp → String
  | .add _ => "add"
  | .addOutput _ _ => "add_output"
  | .copy _ _ => "copy"
  | .delete _ => "delete"
  | .modify _ _ => "modify"
  | .permit _ => "permit"
  | .rename _ _ => "rename"
  | .setdefault _ => "setdefault"

/-- why a chain of edit functions stopped: `None` was returned, or an exception -/
inductive Stop where
  | reject
  | raise (e : Err)
  deriving DecidableEq, Repr, Inhabited

/-- one function of `DataEdit._editlist` -/
def EditOp.apply (env : Env) : EditOp → Data → Except Stop Data
  | .add kw, d => .ok (update d kw)
  | .addOutput key src, d => .ok (d.set key (env src))
  | .copy src dst, d =>
    match d.get? src with
    | none => .error (.raise .keyError)
    | some v => .ok (d.set dst v)
  | .delete keys, d => .ok (eraseAll d keys)
  | .modify key f, d =>
    match d.get? key with
    | none => .error (.raise .keyError)
    | some cur =>
      match f cur with
      | .value v => .ok (d.set key v)
      | .delete => .ok (d.erase key)
      | .reject => .error .reject
      | .raise e => .error (.raise e)
  | .permit keys, d => .ok (keepOnly d keys)
  | .rename src dst, d =>
    match d.get? src with
    | none => .error (.raise .keyError)
    | some v => .ok ((d.set dst v).erase src)
  | .setdefault kw, d => .ok (update kw d)

/-- `DataEdit.__call__`: the edit functions left to right, stop at the first non-mapping -/
def chain (env : Env) : List EditOp → Data → Except Stop Data
  | [], d => .ok d
  | op :: ops, d =>
    match op.apply env d with
    | .ok d' => chain env ops d'
    | .error s => .error s

def dataEditCall (env : Env) (ops : List EditOp) (d : Data) : FRes :=
  match chain env ops d with
  | .ok d' => .mapping d'
  | .error .reject => .other Val.none
  | .error (.raise e) => .raise e

/-- a DataEdit OBJECT is its edit list.  Every operation is a `_dualmethod`: `DataEdit.op(…)` called on the
    class creates a fresh (empty) object first, `obj.op(…)` extends THAT object; the operation appends its
    one edit function at the end and returns the object (chaining, left to right) -/
def dataEditNew : List EditOp := []

def dataEditOp (inst : Option (List EditOp)) (op : EditOp) : List EditOp :=
  match inst with
  | none => dataEditNew ++ [op]
  | some l => l ++ [op]

/-! ### references to control blocks -/

/-- the block class a reference must be an instance of (`resolve_name(obj, attr, block_type=…)`) -/
inductive BlockType where
  | block | sblock | cblock
  deriving DecidableEq, Repr, Inhabited

/-- what a circuit block is -/
inductive BlockKind where
  | sblock | cblock
  deriving DecidableEq, Repr, Inhabited

/-- `isinstance(blk, block_type)` -/
def BlockType.admits : BlockType → BlockKind → Bool
  | .block, _ => true
  | .sblock, k => k == .sblock
  | .cblock, k => k == .cblock

/-- the constructor of a control-block filter: the argument (a block or its name) is stored in an attribute
    and that attribute is registered with the circuit's resolver together with the required block type;
    the filter's `__call__` asserts the same type before it uses the block -/
structure CtrlRef where
  stored : String               -- the attribute assigned from the argument
  registered : String           -- the attribute given to `resolve_name`
  blockType : BlockType         -- `block_type=` (default of the resolver: any Block)
  deriving DecidableEq, Repr, Inhabited

/-- `IfOutput`: any block has an output -/
def ifOutputRef : CtrlRef := ⟨"_ctrl_blk", "_ctrl_blk", .block⟩
/-- `IfNotIitialized`: only a sequential block has an initialisation state -/
def ifNotInitializedRef : CtrlRef := ⟨"_ctrl_blk", "_ctrl_blk", .sblock⟩

/-! ### filters and the loop in `Event.send` -/

inductive Filter where
  | edge (fl : EdgeFlags)
  | notFromUndef
  | delta (δ : XNum) (last : Val)         -- `last`: UNDEF until a value has passed
  | ifOutput (ctrl : String)
  | ifNotInitialized (ctrl : String)
  | dataEdit (ops : List EditOp)
  /-- user code: the dict after its in-place modifications, and the return value -/
  | user (f : Data → Data × FRes)

instance : Inhabited Filter := ⟨.notFromUndef⟩

def Filter.mkEdge (a : EdgeArgs) : Filter := .edge a.flags

/-- `IfOutput(blk)` / `IfNotIitialized(blk)` for an existing block of the given kind: a TypeError when the
    block is not of the registered type (for a name the same check runs when the circuit is finalized) -/
def Filter.mkIfOutput (kind : BlockKind) (ctrl : String) : Except Err Filter :=
  if ifOutputRef.blockType.admits kind then .ok (.ifOutput ctrl) else .error .typeError

def Filter.mkIfNotInitialized (kind : BlockKind) (ctrl : String) : Except Err Filter :=
  if ifNotInitializedRef.blockType.admits kind then .ok (.ifNotInitialized ctrl) else .error .typeError
def Filter.mkDelta (δ : XNum) : Filter := .delta δ .undef

structure CallResult where
  filter : Filter       -- the filter object afterwards (Delta remembers)
  data : Data           -- the dict that was passed in, after the call
  ret : FRes

/-- one call `efilter(data)`.  The bundled filters never return a true non-mapping value after
    having modified the dict (DataEdit returns the dict, None or raises), so `data` is the
    argument itself for them. -/
def Filter.call (env : Env) : Filter → Data → CallResult
  | .edge fl, d => ⟨.edge fl, d, edgeCall fl d⟩
  | .notFromUndef, d => ⟨.notFromUndef, d, .other (.bool (notFromUndefPass d))⟩
  | .delta δ last, d => let r := deltaCall δ last d; ⟨.delta δ r.1, d, r.2⟩
  | .ifOutput c, d => ⟨.ifOutput c, d, if (env c).truthy then .mapping d else .other Val.none⟩
  | .ifNotInitialized c, d =>
    ⟨.ifNotInitialized c, d, if env.initialized c then .other Val.none else .mapping d⟩
  | .dataEdit ops, d => ⟨.dataEdit ops, d, dataEditCall env ops d⟩
  | .user f, d => let r := f d; ⟨.user f, r.1, r.2⟩

inductive Outcome where
  | delivered (d : Data)      -- `dest.event(etype, **d)` was called, `send` returns True
  | rejected                  -- `send` returns False, the destination gets nothing
  | error (e : Err)           -- the exception leaves `send`, the destination gets nothing
  deriving Inhabited

/-- the filter loop of `Event.send`: the filters afterwards and the outcome -/
def runFrom (env : Env) : List Filter → Data → List Filter × Outcome
  | [], d => ([], .delivered d)
  | f :: fs, d =>
    let r := f.call env d
    match r.ret with
    | .mapping d' => let t := runFrom env fs d'; (r.filter :: t.1, t.2)
    | .other v =>
      if v.truthy then let t := runFrom env fs r.data; (r.filter :: t.1, t.2)
      else (r.filter :: fs, .rejected)
    | .badKey => (r.filter :: fs, .error .typeError)
    | .raise e => (r.filter :: fs, .error e)

/-- the data the destination receives, if any -/
def runFilters (env : Env) (fs : List Filter) (d : Data) : Option Data :=
  match (runFrom env fs d).2 with
  | .delivered d' => some d'
  | _ => none

/-- `Event.send(source, **data)`: `data['source'] = source.name`, then the loop -/
def send (env : Env) (fs : List Filter) (source : String) (d : Data) : List Filter × Outcome :=
  runFrom env fs (d.set "source" (Val.str source))

/-- the return value of `send` when it returns -/
def Outcome.sendResult : Outcome → Option Bool
  | .delivered _ => some true
  | .rejected => some false
  | .error _ => none

/-- one filter object called with a sequence of events -/
def callSeq (env : Env) : Filter → List Data → List FRes
  | _, [] => []
  | f, d :: ds => let r := f.call env d; r.ret :: callSeq env r.filter ds

/-- one Event sending a sequence of events from the same source -/
def sendSeq (env : Env) (fs : List Filter) (source : String) : List Data → List Outcome
  | [] => []
  | d :: ds => let r := send env fs source d; r.2 :: sendSeq env r.1 source ds

end Edzed.Filters
