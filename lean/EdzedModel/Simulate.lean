/-
Model of the simulator's evaluation loop `Circuit._simulate` (edzed/simulator.py) together with
`CBlock.eval_block`, `SBlock.set_output`'s queueing and the library CBlocks
(edzed/blocklib/cblocks.py).  Shared by C01 and C10.

The state is the simulator's: outputs of the CBlocks and SBlocks, the `eval_set`, the
`sblock_queue`, the evaluation counter.  WHICH block of the eval set is evaluated next is a
parameter of the step (`select_blk` is a heuristic and Python's set order is not
reproducible): the correspondence replays the implementation's choices, the theorems
quantify over all of them.
-/
import EdzedModel.Basic.Val
import EdzedModel.Gen.Constants

namespace Edzed.Sim

/-! ### generic part: any network, any value type -/

structure Net (V : Type) where
  n     : Nat                      -- number of CBlocks
  insC  : Nat → List Nat           -- CBlock inputs that are CBlocks
  insS  : Nat → List Nat           -- CBlock inputs that are SBlocks
  succC : Nat → List Nat           -- oconnections of a CBlock
  succS : Nat → List Nat           -- oconnections of an SBlock
  fcalc : Nat → (Nat → V) → (Nat → V) → V   -- fcalc b outC outS (may read its own output outC b)

structure St (V : Type) where
  outC : Nat → V
  outS : Nat → V
  E    : Nat → Bool                -- eval_set
  Q    : List Nat                  -- sblock_queue
  cnt  : Nat := 0                  -- eval_cnt

def upd {V : Type} (f : Nat → V) (i : Nat) (v : V) : Nat → V := fun j => if j = i then v else f j

/-- `while not queue.empty(): eval_set |= queue.get_nowait().oconnections` -/
def drain {V : Type} (net : Net V) (s : St V) : St V :=
  { s with E := fun b => s.E b || s.Q.any (fun i => (net.succS i).contains b), Q := [] }

/-- Evaluate block `b` (`eval_block` + `eval_set |= oconnections` when changed).
    `eq` is Python's `==`.  `outS'`/`Q'` are the SBlock outputs and the queue after the
    synchronous on_output events of `b`. -/
def evalStep {V : Type} (eq : V → V → Bool) (net : Net V) (s : St V) (b : Nat)
    (outS' : Nat → V) (Q' : List Nat) : St V :=
  let v := net.fcalc b s.outC s.outS
  if eq (s.outC b) v then { s with E := fun x => s.E x && x != b, cnt := s.cnt + 1 }
  else { outC := upd s.outC b v, outS := outS', Q := Q', cnt := s.cnt + 1,
         E := fun x => (s.E x && x != b) || (net.succC b).contains x }

def isIdle {V : Type} (net : Net V) (s : St V) : Bool :=
  s.Q.isEmpty && (List.range net.n).all (fun b => !s.E b)

/-! ### concrete part: library blocks over `Val` -/

inductive Src where
  | c (j : Nat)       -- output of CBlock j
  | s (i : Nat)       -- output of SBlock i
  | k (v : Val)       -- Const
  deriving Repr, Inhabited

/-- scripts standing for user functions of FuncBlocks -/
inductive Script where
  | cnt        -- number of truthy positional inputs
  | sel        -- named single inputs c, x, y:  x if c else y
  | glen       -- named group g: number of truthy members + number of positional inputs
  | big        -- 1000 + number of truthy positional inputs: a result that CPython does not intern (every call
               -- returns a fresh int object; an identity comparison of outputs is visible with this script only)
  deriving Repr, Inhabited, DecidableEq

inductive Fn where
  | not | and | or | xor
  | override (null : Val)
  | compare (low high : Rat)
  | func (f : Script) (unpack : Bool)
  deriving Repr, Inhabited

inductive SKind where
  | input | counter
  deriving Repr, Inhabited, DecidableEq

inductive EvKind where
  | put | inc
  deriving Repr, Inhabited, DecidableEq

structure CBlk where
  fn     : Fn
  pos    : List Src := []                       -- the unnamed group `_`
  named  : List (String × Src) := []            -- named single inputs
  groups : List (String × List Src) := []       -- named groups
  events : List (Nat × EvKind) := []            -- on_output events: destination SBlock, type
  deriving Repr, Inhabited

def CBlk.allSrcs (b : CBlk) : List Src :=
  b.pos ++ b.named.map (·.2) ++ b.groups.flatMap (·.2)

def Src.val (outC outS : Nat → Val) : Src → Val
  | .c j => outC j
  | .s i => outS i
  | .k v => v

def numOf : Val → Rat
  | .atom (.num q _) => q
  | _ => 0

def countTruthy (l : List Val) : Nat := (l.filter Val.truthy).length

def lookupNamed (outC outS : Nat → Val) (l : List (String × Src)) (k : String) : Val :=
  match l.find? (·.1 == k) with
  | some p => p.2.val outC outS
  | none => .undef

/-- `calc_output` of the library blocks; `own` is the block's current output (Compare) -/
def calcBlk (b : CBlk) (own : Val) (outC outS : Nat → Val) : Val :=
  let pos := b.pos.map (Src.val outC outS)
  match b.fn with
  | .not => Val.bool (!(pos.headD .undef).truthy)
  | .and => Val.bool (pos.all Val.truthy)
  | .or => Val.bool (pos.any Val.truthy)
  | .xor => Val.bool (countTruthy pos % 2 == 1)
  | .override null =>
    let ov := lookupNamed outC outS b.named "override"
    if ov.pyEq null then lookupNamed outC outS b.named "input" else ov
  | .compare low high =>
    let thr : Rat := if own.isUndef then (low + high) / 2 else if own.truthy then low else high
    Val.bool (decide (thr ≤ numOf (pos.headD .undef)))
  | .func .cnt _ => Val.int (countTruthy pos)
  | .func .big _ => Val.int (1000 + countTruthy pos)
  | .func .sel _ =>
    if (lookupNamed outC outS b.named "c").truthy then lookupNamed outC outS b.named "x"
    else lookupNamed outC outS b.named "y"
  | .func .glen _ =>
    let g := (b.groups.find? (·.1 == "g")).map (·.2) |>.getD []
    Val.int (countTruthy (g.map (Src.val outC outS)) + pos.length)

structure Circuit where
  cblocks : List CBlk
  skinds  : List SKind
  nblocks : Nat            -- len(circuit._blocks): all blocks incl. automatic ones
  deriving Repr, Inhabited

def isC (j : Nat) : Src → Bool
  | .c j' => j' == j
  | _ => false

def isS (i : Nat) : Src → Bool
  | .s i' => i' == i
  | _ => false

def Circuit.blk (c : Circuit) (b : Nat) : CBlk := c.cblocks.getD b default

def cIns (b : CBlk) : List Nat := b.allSrcs.filterMap fun | .c j => some j | _ => none
def sIns (b : CBlk) : List Nat := b.allSrcs.filterMap fun | .s i => some i | _ => none

/-- the network of a circuit: connections are derived from the resolved inputs, exactly what
    `Circuit._finalize` is specified to produce (C15) -/
def Circuit.net (c : Circuit) : Net Val where
  n := c.cblocks.length
  insC b := cIns (c.blk b)
  insS b := sIns (c.blk b)
  succC a := (List.range c.cblocks.length).filter fun b => (cIns (c.blk b)).contains a
  succS i := (List.range c.cblocks.length).filter fun b => (sIns (c.blk b)).contains i
  fcalc b outC outS := calcBlk (c.blk b) (outC b) outC outS

def Circuit.limit (c : Circuit) : Nat := Gen.maxEvalsPerBlock * c.nblocks

/-- `set_output` of an SBlock without output events: store when changed, and enqueue -/
def setOutput (outS : Nat → Val) (Q : List Nat) (i : Nat) (v : Val) : (Nat → Val) × List Nat :=
  if (outS i).pyEq v then (outS, Q) else (upd outS i v, Q ++ [i])

/-- effect of one event on the destination SBlock -/
def deliver (kinds : List SKind) (outS : Nat → Val) (Q : List Nat) (i : Nat) (k : EvKind) (value : Val) :
    (Nat → Val) × List Nat :=
  match kinds.getD i .input, k with
  | .input, .put => setOutput outS Q i value
  | .counter, .inc =>
    match outS i with
    | .atom (.num q kd) => setOutput outS Q i (.atom (.num (q + 1) (kd.join .int)))
    | _ => (outS, Q)
  | .counter, .put => setOutput outS Q i value
  | .input, .inc => (outS, Q)

/-- the on_output events of CBlock `b` after its output changed to `v` -/
def effects (c : Circuit) (b : Nat) (v : Val) (outS : Nat → Val) (Q : List Nat) : (Nat → Val) × List Nat :=
  (c.blk b).events.foldl (fun acc e => deliver c.skinds acc.1 acc.2 e.1 e.2 v) (outS, Q)

inductive EvalRes where
  | ok (changed : Bool) (out : Val)
  | illegalChoice
  | instability
  deriving Repr, Inhabited

def anyPending (net : Net Val) (E : Nat → Bool) : Bool := (List.range net.n).any E

/-- one iteration of the `while True` loop body with the implementation's choice `b`:
    drain the queue, count, check the limit, evaluate `b` -/
def evalOp (c : Circuit) (s : St Val) (b : Nat) : St Val × EvalRes :=
  let s1 := drain c.net s
  if !anyPending c.net s1.E then (s1, .illegalChoice)
  else if s1.cnt + 1 > c.limit then (s1, .instability)
  else if !(s1.E b) || !(decide (b < c.net.n)) then (s1, .illegalChoice)
  else
    let v := c.net.fcalc b s1.outC s1.outS
    let (outS', Q') := effects c b v s1.outS s1.Q
    let s2 := evalStep Val.pyEq c.net s1 b outS' Q'
    (s2, .ok (!(s1.outC b).pyEq v) (s2.outC b))

/-- the loop pauses (`await queue.get()`): nothing pending; the counter restarts -/
def idleOp (c : Circuit) (s : St Val) : Option (St Val) :=
  let s1 := drain c.net s
  if isIdle c.net s1 then some { s1 with cnt := 0 } else none

/-- state when `_simulate` starts: everything is to be evaluated, the queue was cleared -/
def start (c : Circuit) (outS : Nat → Val) : St Val :=
  { outC := fun _ => .undef, outS := outS, E := fun b => decide (b < c.cblocks.length), Q := [], cnt := 0 }

/-- an external event while the simulator is paused -/
def extOp (c : Circuit) (s : St Val) (i : Nat) (k : EvKind) (value : Val) : St Val :=
  let (o, q) := deliver c.skinds s.outS s.Q i k value
  { s with outS := o, Q := q }

/-- operations on the simulation as the correspondence replays them -/
inductive Op where
  | ext (i : Nat) (k : EvKind) (value : Val)    -- external event on an SBlock
  | eval (b : Nat)                              -- one loop iteration evaluating block b
  | idle                                        -- the loop pauses (only possible when nothing is pending)
  deriving Repr, Inhabited

def step (c : Circuit) (s : St Val) : Op → St Val
  | .ext i k v => extOp c s i k v
  | .eval b => (evalOp c s b).1
  | .idle => (idleOp c s).getD s

def run (c : Circuit) (s : St Val) (ops : List Op) : St Val := ops.foldl (step c) s

end Edzed.Sim
