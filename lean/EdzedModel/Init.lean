/-
Model of the start-up of a circuit (C05):
  edzed/simulator.py  `run_forever` (the part up to `_simulate`), `init_sblock`,
                      `_init_sblocks_sync_1`, `_init_sblocks_async`, `_run_tasks`,
                      `_init_sblocks_sync_2`, `wait_init`
  edzed/block.py      `SBlock.set_output`, `SBlock.event` (recursion guard, early initialisation,
                      abort on an error inside a handler), `init_steps_completed`
  edzed/addons.py     `AddonPersistence.init_from_persistent_data` (errors suppressed),
                      `AddonAsync`/`AddonAsyncInit` (`init_async`, `init_timeout`)

User code is represented by scripts: what the persistent entry / `init_async` / `init_regular` /
`init_from_value` of a block do.  Blocks are numbered in creation order; every block handles the
event 'put' by `set_output(value)`; `on_output` events are 'put' edges.

Exceptions: `St.exc` is the exception in flight (everything except `finally` clauses is skipped while
it is set; `try/except` sites clear it).  `St.aborted` = `Circuit.abort()` was called (`_error` set, the
simulation task cancelled): the model stops there, later calls are not part of the model (in the code the
CancelledError reaches the simulation task at its next await -- `_run_tasks`, the `asyncio.sleep(0)` after the
`try` -- or the start-up ends at the test `if self._error is None` before `_simulate()`; what runs in between
is compared by the oracle only).  A refused recursive event aborts at the refusal
(patches/C11-refused-recursion-aborts.diff).

`wait_init` mirrors the code WITH the repair patches/C05-wait-init-after-failure.diff (the `_error` test);
`waitInitLegacy` is the unrepaired version (see the counter-example in EdzedProps/C05.lean).
-/
import EdzedModel.Basic.Val

namespace Edzed.Init

/-- how a routine applies its value: `self.set_output(v)` or `self.event('put', value=v)` -/
inductive How where
  | direct | viaEvent
  deriving DecidableEq, Repr, Inhabited

inductive Persist where
  | none                              -- not persistent / no saved entry: `_restore_state` is not called
  | restores (v : Val) (how : How)
  | raises                            -- `_restore_state` raises (suppressed by `init_from_persistent_data`)
  deriving DecidableEq, Repr, Inhabited

inductive Async where
  | none                              -- no `init_async` method
  | returns (v : Val) (fin : Nat)     -- sets the output `fin` µs after the start of the async phase
  | fails (fin : Nat)
  | never
  deriving DecidableEq, Repr, Inhabited

inductive Regular where
  | none
  | sets (v : Val)
  | viaEvent (v : Val)
  | raises
  | quietNone                         -- `InitAsync.init_regular`: output None without events unless
                                      -- initialised or an initdef exists
  deriving DecidableEq, Repr, Inhabited

structure Blk where
  persist : Persist := .none
  async : Async := .none
  timeout : Int := 0                  -- `init_timeout` in µs
  regular : Regular := .none
  initdef : Option (Val × How) := Option.none
  start : Option Val := Option.none   -- value set by the block's main task right after `start()` (ValuePoll)
  monitored : Bool := false           -- the output is set by a monitored task (`_task_monitor`: an error aborts)
  tieWin : Bool := false              -- outcome of the tie "completion == deadline" chosen by the implementation
  dests : List Nat := []              -- on_output=Event(dest, 'put')
  deriving Repr, Inhabited

inductive Err where
  | recursion     -- EdzedCircuitError: Forbidden recursive event() call
  | routine       -- a script raised
  | valueError    -- set_output(UNDEF)
  | notInit       -- EdzedCircuitError: not initialized
  | firstPass     -- the first evaluation pass raised
  | fuel          -- model artefact: recursion budget exhausted (never with the driver's budget)
  deriving DecidableEq, Repr, Inhabited

inductive Entry where
  | start (b : Nat)
  | arrive (b : Nat)                              -- `event()` entered
  | refused (b : Nat)                             -- the recursion guard refused the event (block active)
  | handle (b : Nat) (v : Val) (steps : Int)      -- the 'put' handler runs; `init_steps_completed` at that time
  | restore (b : Nat)
  | async (b : Nat) (uninit : Bool) (timeout : Int)
  | asyncDone (b : Nat)
  | asyncFail (b : Nat)
  | asyncCancel (b : Nat)
  | regular (b : Nat)
  | initdef (b : Nat) (uninit : Bool)
  | fuelOut                                       -- model artefact: the recursion budget was exhausted here
  deriving DecidableEq, Repr, Inhabited

structure St where
  out : Nat → Val := fun _ => .undef
  steps : Nat → Int := fun _ => 0          -- `init_steps_completed`
  active : Nat → Bool := fun _ => false    -- `_event_active`
  log : List Entry := []
  exc : Option Err := Option.none
  aborted : Bool := false
  abortExc : Option Err := Option.none     -- the error given to `abort()` when it is not the handler's wrapper
  elapsed : Nat := 0                       -- duration of the asynchronous phase
  initDone : Bool := false                 -- `_init_done.set()` was reached
  firstPassDone : Bool := false
  cout : List Val := []                    -- outputs of the combinational blocks after the first pass
  deriving Inhabited

def upd {α : Type} (f : Nat → α) (b : Nat) (x : α) : Nat → α := fun i => if i = b then x else f i

namespace St
def ok (s : St) : Bool := s.exc.isNone && !s.aborted
def push (s : St) (e : Entry) : St := { s with log := s.log ++ [e] }
def raise (s : St) (e : Err) : St := { s with exc := some e }
def swallow (s : St) : St := { s with exc := Option.none }
/-- the guard of `SBlock.event` (with patches/C11-refused-recursion-aborts.diff): `abort(exc)` at the refusal
    itself, then `raise exc` -- the error register is set even if a caller swallows the exception;
    only the first `abort()` counts -/
def refuse (s : St) : St :=
  if s.aborted then { s with exc := some .recursion }
  else { s with exc := some .recursion, aborted := true, abortExc := some .recursion }
/-- the `except` clause of `SBlock.event`: an error inside the handler → `abort(EdzedCircuitError(...))`, re-raise;
    only the first `abort()` counts -/
def handlerFrame (s : St) : St :=
  if s.exc.isSome && !s.aborted then { s with aborted := true } else s
/-- `_task_monitor`: an error in a monitored task → `abort(err)` with the error itself -/
def monitor (s : St) : St :=
  if s.exc.isSome && !s.aborted then { s with aborted := true, abortExc := s.exc } else s
def setOut (s : St) (b : Nat) (v : Val) : St := { s with out := upd s.out b v }
def setSteps (s : St) (b : Nat) (k : Int) : St := { s with steps := upd s.steps b k }
def setActive (s : St) (b : Nat) (x : Bool) : St := { s with active := upd s.active b x }
end St

/-- a combinational block in the first evaluation pass: what its `calc_output()` does -/
inductive CScript where
  | returns (v : Val)     -- `v` may be UNDEF: `eval_block` then raises ValueError("Output value must not be <UNDEF>")
  | raises
  deriving DecidableEq, Repr, Inhabited

/-- `CBlock.eval_block` fails: the function raised, or the UNDEF check (BEFORE the `previous == value` fast path) -/
def CScript.fails : CScript → Bool
  | .raises => true
  | .returns v => v.isUndef

def CScript.value : CScript → Val
  | .returns v => v
  | .raises => .undef

structure Cfg where
  n : Nat
  blk : Nat → Blk
  cblocks : List CScript := []       -- the combinational blocks evaluated in the first pass
  fuel : Nat := 0

inductive Call where
  | setOutput (b : Nat) (v : Val)
  | send (ds : List Nat) (v : Val)     -- the loop over `_output_events` in `set_output`
  | event (d : Nat) (v : Val)          -- `SBlock.event('put', value=v)`
  | initS (b : Nat) (full : Bool)      -- `Circuit.init_sblock(blk, full)`
  deriving Repr, Inhabited

def applyCall (how : How) (b : Nat) (v : Val) : Call :=
  match how with
  | .direct => .setOutput b v
  | .viaEvent => .event b v

/-! The synchronous call tree of the initialisation.  `rec` stands for the recursive calls
(`exec c fuel`); `exec` ties the knot with a fuel that bounds the depth of the tree. -/

/-- `SBlock.set_output` -/
def setOutputBody (c : Cfg) (rec : Call → St → St) (b : Nat) (v : Val) (s : St) : St :=
  if v.isUndef then s.raise .valueError
  else if (s.out b).pyEq v then s
  else rec (.send (c.blk b).dests v) (s.setOut b v)

/-- the loop over the output events; an exception leaves the loop (`rec` does nothing then) -/
def sendBody (rec : Call → St → St) (ds : List Nat) (v : Val) (s : St) : St :=
  match ds with
  | [] => s
  | d :: r => rec (.send r v) (rec (.event d v) s)

/-- `SBlock.event('put', value=v)` -/
def eventBody (rec : Call → St → St) (d : Nat) (v : Val) (s : St) : St :=
  let s := s.push (.arrive d)
  if s.active d then (s.push (.refused d)).refuse else
  let s := s.setActive d true
  -- `if 0 <= self.init_steps_completed < 2: with self._enable_event: init_sblock(self, full=True)`
  let s := if 0 ≤ s.steps d ∧ s.steps d < 2
    then (rec (.initS d true) (s.setActive d false)).setActive d true
    else s
  let s := if s.ok
    then (rec (.setOutput d v) (s.push (.handle d v (s.steps d)))).handlerFrame
    else s
  s.setActive d false

/-- step 1 of `init_sblock`: the persistent state; `init_from_persistent_data` suppresses every exception -/
def step1 (c : Cfg) (rec : Call → St → St) (b : Nat) (s : St) : St :=
  let a := s.setSteps b (-1)
  let a := match (c.blk b).persist with
    | .none => a
    | .raises => a.push (.restore b)
    | .restores v how => (rec (applyCall how b v) (a.push (.restore b))).swallow
  a.setSteps b 1

/-- `init_regular()` -/
def regularBody (c : Cfg) (rec : Call → St → St) (b : Nat) (a : St) : St :=
  match (c.blk b).regular with
  | .none => a
  | .sets v => rec (.setOutput b v) a
  | .viaEvent v => rec (.event b v) a
  | .raises => a.raise .routine
  | .quietNone =>
    if (a.out b).isUndef ∧ (c.blk b).initdef.isNone then a.setOut b Val.none else a

/-- `if not initialized and has init_from_value and initdef is not UNDEF: init_from_value(initdef)` -/
def initdefBody (c : Cfg) (rec : Call → St → St) (b : Nat) (a : St) : St :=
  match (c.blk b).initdef with
  | some (v, how) =>
    if (a.out b).isUndef
    then rec (applyCall how b v) (a.push (.initdef b (a.out b).isUndef))
    else a
  | Option.none => a

/-- step 2 of `init_sblock`; an exception leaves `init_steps_completed` at -2 -/
def step2 (c : Cfg) (rec : Call → St → St) (b : Nat) (s : St) : St :=
  let a := regularBody c rec b ((s.setSteps b (-2)).push (.regular b))
  if !a.ok then a else
  let a := initdefBody c rec b a
  if !a.ok then a else a.setSteps b 2

/-- `Circuit.init_sblock(blk, full)` -/
def initBody (c : Cfg) (rec : Call → St → St) (b : Nat) (full : Bool) (s : St) : St :=
  let st0 := s.steps b
  let s1 := if st0 = 0 then step1 c rec b s else s
  if (st0 = 1 ∨ (st0 = 0 ∧ full = true)) ∧ s1.ok = true then step2 c rec b s1 else s1

def body (c : Cfg) (rec : Call → St → St) (call : Call) (s : St) : St :=
  if !s.ok then s else
  match call with
  | .setOutput b v => setOutputBody c rec b v s
  | .send ds v => sendBody rec ds v s
  | .event d v => eventBody rec d v s
  | .initS b full => initBody c rec b full s

def exec (c : Cfg) : Nat → Call → St → St
  | 0 => fun _ s => if s.ok then (s.push .fuelOut).raise .fuel else s
  | fuel + 1 => body c (exec c fuel)

/-! ### phases of `run_forever` -/

/-- the tasks created by `start()` run during the first `await asyncio.sleep(0)` -/
def phase0 (c : Cfg) (s : St) : St :=
  (List.range c.n).foldl (fun s b =>
    if !s.ok then s else
    match (c.blk b).start with
    | some v => (exec c c.fuel (.setOutput b v) (s.push (.start b))).monitor
    | Option.none => s) s

/-- `_init_sblocks_sync_1` (and the loop of `_init_sblocks_sync_2`) -/
def syncPhase (c : Cfg) (s : St) : St :=
  (List.range c.n).foldl (fun s b => exec c c.fuel (.initS b false) s) s

structure Task where
  blk : Nat
  fin : Option Nat          -- completion time (relative to the start of the phase), none = never
  timeout : Nat
  tieWin : Bool
  deriving Repr, Inhabited

inductive AKind where
  | done | cancel
  deriving DecidableEq, Repr, Inhabited

structure AEvent where
  time : Nat
  blk : Nat
  kind : AKind
  deriving Repr, Inhabited

/-- one turn of the loop of `_run_tasks`; `now` is the time elapsed since `start_time`:
    `if not task.done(): wait_for(task, timeout - elapsed)`; `wait_for` with a non-positive timeout cancels
    at once, otherwise it ends at min(completion, deadline) -/
def stepTask (now : Nat) (t : Task) : Nat × AEvent :=
  match t.fin with
  | some f =>
    if f ≤ now then (now, ⟨f, t.blk, .done⟩)
    else if t.timeout ≤ now then (now, ⟨now, t.blk, .cancel⟩)
    else if f < t.timeout ∨ (f = t.timeout ∧ t.tieWin = true) then (f, ⟨f, t.blk, .done⟩)
    else (t.timeout, ⟨t.timeout, t.blk, .cancel⟩)
  | Option.none =>
    if t.timeout ≤ now then (now, ⟨now, t.blk, .cancel⟩)
    else (t.timeout, ⟨t.timeout, t.blk, .cancel⟩)

/-- `_run_tasks` over the already sorted list: the time when it returns and what happened to each task -/
def runTasks (now : Nat) : List Task → Nat × List AEvent
  | [] => (now, [])
  | t :: r =>
    let p := stepTask now t
    let q := runTasks p.1 r
    (q.1, p.2 :: q.2)

/-- stable insertion by a key -/
def insertBy {α : Type} (key : α → Nat) (le : Nat → Nat → Bool) (x : α) : List α → List α
  | [] => [x]
  | y :: r => if le (key y) (key x) then y :: insertBy key le x r else x :: y :: r

/-- stable sort; `le a b` = "a may stay in front of b" -/
def sortBy {α : Type} (key : α → Nat) (le : Nat → Nat → Bool) (l : List α) : List α :=
  l.foldl (fun acc x => insertBy key le x acc) []

/-- `sorted(btt_list, key=itemgetter(2), reverse=True)` (stable) -/
def sortDesc (l : List Task) : List Task := sortBy Task.timeout (fun a b => a ≥ b) l

def eligible (c : Cfg) (s : St) : List Nat :=
  (List.range c.n).filter fun b =>
    (s.out b).isUndef && (c.blk b).async != .none && decide ((c.blk b).timeout > 0)

def mkTask (c : Cfg) (b : Nat) : Task :=
  let k := c.blk b
  { blk := b, timeout := k.timeout.toNat, tieWin := k.tieWin,
    fin := match k.async with
      | .returns _ f => some f
      | .fails f => some f
      | _ => Option.none }

/-- what happens in the asynchronous phase, in the order of (virtual) time: completions of one instant in
    creation order, before the cancellations of that instant (which follow the sorted list) -/
def schedule (tasks : List Task) : Nat × List AEvent :=
  let (tEnd, evs) := runTasks 0 (sortDesc tasks)
  let dones := sortBy AEvent.blk (fun a b => a ≤ b) (evs.filter (·.kind = .done))
  let cancels := evs.filter (·.kind = .cancel)
  (tEnd, sortBy AEvent.time (fun a b => a ≤ b) (dones ++ cancels))

def applyEvent (c : Cfg) (s : St) (e : AEvent) : St :=
  if !s.ok then s else
  match e.kind with
  | .cancel => s.push (.asyncCancel e.blk)
  | .done =>
    match (c.blk e.blk).async with
    | .returns v _ =>
      let t := exec c c.fuel (.setOutput e.blk v) (s.push (.asyncDone e.blk))
      -- a failing `init_async` task is only logged by `_run_tasks`; a monitored main task aborts
      if (c.blk e.blk).monitored then t.monitor else t.swallow
    | .fails _ => s.push (.asyncFail e.blk)
    | _ => s

/-- `_init_sblocks_async` -/
def asyncPhase (c : Cfg) (s : St) : St :=
  if !s.ok then s else
  let el := eligible c s
  let s := el.foldl (fun s b => s.push (.async b (s.out b).isUndef (c.blk b).timeout)) s
  let sch := schedule (el.map (mkTask c))
  let s := sch.2.foldl (applyEvent c) s
  if s.ok then { s with elapsed := sch.1 } else s

def allInitialised (c : Cfg) (s : St) : Bool :=
  (List.range c.n).all fun b => !(s.out b).isUndef

/-- the test loop of `_init_sblocks_sync_2` -/
def check (c : Cfg) (s : St) : St :=
  if !s.ok then s else if allInitialised c s then s else s.raise .notInit

/-- `if self._error is None: self._init_done.set(); await self._simulate()` up to the first pause -/
def firstPass (c : Cfg) (s : St) : St :=
  if !s.ok then s else
  let s := { s with initDone := true }
  if c.cblocks.any CScript.fails then s.raise .firstPass
  else { s with firstPassDone := true, cout := c.cblocks.map CScript.value }

def init : St := {}

def afterSync1 (c : Cfg) : St := syncPhase c (phase0 c init)
def afterAsync (c : Cfg) : St := asyncPhase c (afterSync1 c)
def afterCheck (c : Cfg) : St := check c (syncPhase c (afterAsync c))
def run (c : Cfg) : St := firstPass c (afterCheck c)

/-- `Circuit._error is not None` -/
def St.failed (s : St) : Bool := s.aborted || s.exc.isSome

/-- `Circuit.is_ready()` while the simulation task exists -/
def St.running (s : St) : Bool := !s.failed

def errKind : Err → String
  | .recursion => "CircuitError"
  | .notInit => "CircuitError"
  | .fuel => "Fuel"
  | _ => "Other"

/-- kind of `Circuit.error`: `abort()` stores an EdzedCircuitError wrapping the cause -/
def St.errorKind (s : St) : Option String :=
  if s.aborted then some (match s.abortExc with | some e => errKind e | Option.none => "CircuitError")
  else s.exc.map errKind

/-! ### `wait_init` as its caller sees it -/

/-- what the waiter finds when `asyncio.wait([_init_done.wait(), simtask])` lets it go on, some loop
    iterations after the event it waited for -/
structure View where
  initDone : Bool         -- `_init_done` is set
  simtaskDone : Bool      -- the simulation task has finished (clean-up included)
  error : Bool            -- `Circuit._error is not None`
  deriving DecidableEq, Repr

inductive WaitRes where
  | waiting | returned | raised
  deriving DecidableEq, Repr

/-- repaired `wait_init` -/
def waitInit (v : View) : WaitRes :=
  if !(v.initDone || v.simtaskDone) then .waiting
  else if v.simtaskDone then .raised
  else if v.error then .raised
  else .returned

/-- the code before patches/C05-wait-init-after-failure.diff -/
def waitInitLegacy (v : View) : WaitRes :=
  if !(v.initDone || v.simtaskDone) then .waiting
  else if v.simtaskDone then .raised
  else .returned

/-- the views of a finished start-up `s` that a waiter can meet: the simulation task ends only after an
    error, and whether it has already ended when the waiter resumes depends on the length of the clean-up -/
def View.of (s : St) (v : View) : Prop :=
  v.initDone = s.initDone ∧ v.error = s.failed ∧ (v.simtaskDone = true → s.failed = true)

end Edzed.Init
