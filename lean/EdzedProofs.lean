import EdzedProofs.Basic
import EdzedProofs.Counter
import EdzedProofs.OutputAsync
import EdzedProofs.Simulate
