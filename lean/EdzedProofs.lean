import EdzedProofs.Basic
import EdzedProofs.Counter
import EdzedProofs.Lifecycle
import EdzedProofs.Simulate
