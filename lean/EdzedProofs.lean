import EdzedProofs.Basic
import EdzedProofs.Counter
import EdzedProofs.Persist
import EdzedProofs.Simulate
