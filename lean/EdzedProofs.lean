import EdzedProofs.Basic
import EdzedProofs.Counter
import EdzedProofs.Simulate
import EdzedProofs.TimeUnits
