import EdzedProofs.Basic
import EdzedProofs.Burst
import EdzedProofs.Counter
import EdzedProofs.Simulate
