import EdzedProofs.Basic
import EdzedProofs.Counter
import EdzedProofs.Fsm
import EdzedProofs.Simulate
