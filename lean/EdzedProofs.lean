import EdzedProofs.Basic
import EdzedProofs.Counter
import EdzedProofs.Dispatch
import EdzedProofs.Simulate
