import EdzedProofs.Basic
import EdzedProofs.Counter
import EdzedProofs.Init
import EdzedProofs.InitOrder
import EdzedProofs.Simulate
