import EdzedProofs.Basic
import EdzedProofs.Counter
