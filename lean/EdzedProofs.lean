import EdzedProofs.Basic
import EdzedProofs.Counter
import EdzedProofs.Repeat
import EdzedProofs.Simulate
