import EdzedProofs.Basic
import EdzedProofs.Counter
import EdzedProofs.Output
import EdzedProofs.Simulate
