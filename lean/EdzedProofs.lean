import EdzedProofs.Basic
import EdzedProofs.Counter
import EdzedProofs.Filters
import EdzedProofs.Simulate
