import EdzedProofs.Basic
import EdzedProofs.Counter
import EdzedProofs.Interval
import EdzedProofs.IntervalTables
import EdzedProofs.IntervalText
import EdzedProofs.Simulate
