import EdzedProofs.Basic
import EdzedProofs.Counter
import EdzedProofs.ErrorReg
import EdzedProofs.Simulate
