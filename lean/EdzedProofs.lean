import EdzedProofs.Basic
import EdzedProofs.Counter
import EdzedProofs.Init
import EdzedProofs.Simulate
