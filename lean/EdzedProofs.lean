import EdzedProofs.Basic
import EdzedProofs.Counter
import EdzedProofs.DataLemmas
import EdzedProofs.ErrorReg
import EdzedProofs.Filters
import EdzedProofs.Output
import EdzedProofs.Simulate
import EdzedProofs.Validate
