import EdzedProofs.Basic
import EdzedProofs.Counter
import EdzedProofs.Cron
import EdzedProofs.Simulate
