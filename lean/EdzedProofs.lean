import EdzedProofs.Basic
import EdzedProofs.Counter
import EdzedProofs.FsmTimer
import EdzedProofs.Simulate
