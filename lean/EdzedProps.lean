import EdzedProps.C01
import EdzedProps.C13
import EdzedProps.C20
