import EdzedProps.C01
import EdzedProps.C05
import EdzedProps.C20
