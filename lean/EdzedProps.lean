import EdzedProps.C01
import EdzedProps.C02
import EdzedProps.C20
