import EdzedProps.C20
