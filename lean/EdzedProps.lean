import EdzedProps.C01
import EdzedProps.C11
import EdzedProps.C20
