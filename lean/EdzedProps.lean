import EdzedProps.C01
import EdzedProps.C15
import EdzedProps.C20
