import EdzedProps.C01
import EdzedProps.C08
import EdzedProps.C20
