import EdzedProps.C01
import EdzedProps.C04
import EdzedProps.C20
