import EdzedProps.C01
import EdzedProps.C20
