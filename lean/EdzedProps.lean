import EdzedProps.C01
import EdzedProps.C06
import EdzedProps.C20
