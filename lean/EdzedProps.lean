import EdzedProps.C01
import EdzedProps.C12
import EdzedProps.C20
