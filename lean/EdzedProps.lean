import EdzedProps.C01
import EdzedProps.C19
import EdzedProps.C20
