import EdzedProps.C01
import EdzedProps.C18
import EdzedProps.C20
