import EdzedProps.C01
import EdzedProps.C02
import EdzedProps.C09
import EdzedProps.C14
import EdzedProps.C15
import EdzedProps.C16
import EdzedProps.C17
import EdzedProps.C20
