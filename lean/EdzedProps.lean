import EdzedProps.C01
import EdzedProps.C10
import EdzedProps.C20
