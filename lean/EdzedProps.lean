import EdzedProps.C01
import EdzedProps.C03
import EdzedProps.C20
