import EdzedProps.C01
import EdzedProps.C16
import EdzedProps.C20
