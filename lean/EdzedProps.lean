import EdzedProps.C01
import EdzedProps.C17
import EdzedProps.C20
