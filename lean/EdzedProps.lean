import EdzedProps.C01
import EdzedProps.C07
import EdzedProps.C20
