/-
Line-protocol driver: `<model> <op> <args…>` per input line, one reply line per request.
Anything that cannot be parsed is answered with `bad-op` (never with a default).
-/
import EdzedModel.Drv.Counter

open Edzed

structure All where
  counter : Counter.DState := default

def dispatch (s : All) (line : String) : All × String :=
  match (line.splitOn " ").filter (· ≠ "") with
  | "counter" :: r => let (c, o) := Counter.handle s.counter r; ({ s with counter := c }, o)
  | _ => (s, "bad-op")

partial def loop (h : IO.FS.Stream) (out : IO.FS.Stream) (s : All) : IO Unit := do
  let line ← h.getLine
  if line.isEmpty then return ()
  let l := String.ofList (line.toList.filter (fun c => c != (Char.ofNat 10) && c != (Char.ofNat 13)))
  let (s', o) := dispatch s l
  out.putStrLn o
  loop h out s'

def main : IO Unit := do
  let stdin ← IO.getStdin
  let stdout ← IO.getStdout
  loop stdin stdout {}
