import asyncio, edzed
class F(edzed.FSM):
    STATES = ['A', 'B', 'C']
    EVENTS = [['go', ['A'], 'B'], ['tmo', None, 'C']]
    TIMERS = {'A': (0.1, 'tmo')}
    def calc_output(self):
        return edzed.UNDEF if self.state == 'A' else self.state
async def main():
    c = edzed.get_circuit()
    f = F('f')
    edzed.Input('kick', initdef=1, on_output=edzed.Event('f', 'go'))
    t = asyncio.create_task(c.run_forever())
    await c.wait_init()
    print('after init:', f.state, f.output, f.get_state())
    await asyncio.sleep(0.3)
    print('later     :', f.state, f.output, f.get_state())
    await c.shutdown()
asyncio.run(main())
